//! `vrt` — a deterministic runtime with the part of tokio's API that foyer uses.
//!
//! Nothing ever runs by itself: spawned futures and `spawn_blocking` closures are parked in a task
//! table and are polled only when the explorer calls [`sim::poll`]. Timers fire only when the
//! explorer calls [`sim::fire`]. See DESIGN.md §2.3.

pub use real_tokio::select;
#[doc(hidden)]
pub use real_tokio::macros;

pub mod sim;

pub mod task {
    pub use crate::sim::{JoinError, JoinHandle};

    pub fn spawn<F>(future: F) -> JoinHandle<F::Output>
    where
        F: std::future::Future + Send + 'static,
        F::Output: Send + 'static,
    {
        crate::sim::spawn_async(future)
    }

    pub fn spawn_blocking<F, R>(func: F) -> JoinHandle<R>
    where
        F: FnOnce() -> R + Send + 'static,
        R: Send + 'static,
    {
        crate::sim::spawn_blocking(func)
    }
}

pub use task::spawn;

pub mod runtime {
    use crate::task::JoinHandle;

    /// Handle to the (single, global) simulated runtime.
    #[derive(Debug, Clone, Default)]
    pub struct Handle;

    #[derive(Debug)]
    pub struct TryCurrentError;

    impl std::fmt::Display for TryCurrentError {
        fn fmt(&self, f: &mut std::fmt::Formatter<'_>) -> std::fmt::Result {
            write!(f, "no runtime")
        }
    }
    impl std::error::Error for TryCurrentError {}

    impl Handle {
        pub fn current() -> Self {
            Handle
        }

        pub fn try_current() -> Result<Self, TryCurrentError> {
            Ok(Handle)
        }

        pub fn spawn<F>(&self, future: F) -> JoinHandle<F::Output>
        where
            F: std::future::Future + Send + 'static,
            F::Output: Send + 'static,
        {
            crate::sim::spawn_async(future)
        }

        pub fn spawn_blocking<F, R>(&self, func: F) -> JoinHandle<R>
        where
            F: FnOnce() -> R + Send + 'static,
            R: Send + 'static,
        {
            crate::sim::spawn_blocking(func)
        }
    }

    /// A "dedicated runtime": the same global task table.
    #[derive(Debug, Default)]
    pub struct Runtime {
        handle: Handle,
    }

    impl Runtime {
        pub fn new() -> std::io::Result<Self> {
            Ok(Self::default())
        }

        pub fn handle(&self) -> &Handle {
            &self.handle
        }

        pub fn spawn<F>(&self, future: F) -> JoinHandle<F::Output>
        where
            F: std::future::Future + Send + 'static,
            F::Output: Send + 'static,
        {
            crate::sim::spawn_async(future)
        }

        pub fn spawn_blocking<F, R>(&self, func: F) -> JoinHandle<R>
        where
            F: FnOnce() -> R + Send + 'static,
            R: Send + 'static,
        {
            crate::sim::spawn_blocking(func)
        }

        pub fn shutdown_background(self) {}
    }
}

pub mod time {
    pub use std::time::Duration;

    pub use crate::sim::Sleep;

    pub fn sleep(duration: Duration) -> Sleep {
        crate::sim::sleep(duration)
    }
}
