//! The task table and the explorer-facing control surface.

use std::{
    any::Any,
    collections::VecDeque,
    future::Future,
    panic::{catch_unwind, AssertUnwindSafe},
    pin::Pin,
    sync::{
        atomic::{AtomicU64, Ordering},
        Arc, Mutex, MutexGuard,
    },
    task::{Context, Poll, Wake, Waker},
    time::Duration,
};

pub type TaskId = usize;
pub type TimerId = usize;

#[derive(Debug, Clone, Copy, PartialEq, Eq)]
pub enum Kind {
    Async,
    Blocking,
}

type BoxFut = Pin<Box<dyn Future<Output = ()> + Send + 'static>>;

struct Task {
    kind: Kind,
    label: String,
    fut: Option<BoxFut>,
    /// In the ready queue.
    queued: bool,
    /// Future is currently taken out for polling.
    running: bool,
    done: bool,
    polls: u32,
    /// Harness time (see `set_time`) of the last wake-up.
    woken_at: Option<u64>,
}

struct Timer {
    deadline: Duration,
    fired: bool,
    dropped: bool,
    waker: Option<Waker>,
}

#[derive(Default)]
struct Sim {
    tasks: Vec<Task>,
    ready: VecDeque<TaskId>,
    timers: Vec<Timer>,
    now: Duration,
    panics: Vec<String>,
    wake_hook: Option<Arc<dyn Fn() + Send + Sync>>,
}

static EPOCH: AtomicU64 = AtomicU64::new(1);
static TIME: AtomicU64 = AtomicU64::new(0);

/// Harness-defined logical time, stamped on task wake-ups.
pub fn set_time(t: u64) {
    TIME.store(t, Ordering::SeqCst);
}

/// Harness time at which the task was last woken, and how often it has been polled.
pub fn wake_info(id: TaskId) -> (Option<u64>, u32) {
    with(|sim| sim.tasks.get(id).map(|t| (t.woken_at, t.polls)).unwrap_or((None, 0)))
}
static SIM: Mutex<Option<Sim>> = Mutex::new(None);

fn lock() -> MutexGuard<'static, Option<Sim>> {
    match SIM.lock() {
        Ok(g) => g,
        Err(p) => p.into_inner(),
    }
}

fn with<R>(f: impl FnOnce(&mut Sim) -> R) -> R {
    let mut g = lock();
    let sim = g.get_or_insert_with(Sim::default);
    f(sim)
}

struct TaskWaker {
    id: TaskId,
    epoch: u64,
}

impl Wake for TaskWaker {
    fn wake(self: Arc<Self>) {
        self.wake_by_ref();
    }

    fn wake_by_ref(self: &Arc<Self>) {
        if self.epoch != EPOCH.load(Ordering::SeqCst) {
            return;
        }
        let hook = with(|sim| {
            if let Some(t) = sim.tasks.get_mut(self.id) {
                if !t.done {
                    t.woken_at = Some(TIME.load(Ordering::SeqCst));
                }
                if !t.done && !t.queued {
                    t.queued = true;
                    sim.ready.push_back(self.id);
                    return sim.wake_hook.clone();
                }
            }
            None
        });
        if let Some(hook) = hook {
            hook();
        }
    }
}

/// Drop every task and timer and start a new epoch. Futures are dropped outside the table lock,
/// newest first is NOT assumed: they are dropped in spawn order.
pub fn reset() {
    EPOCH.fetch_add(1, Ordering::SeqCst);
    loop {
        let old = {
            let mut g = lock();
            g.take()
        };
        match old {
            None => break,
            Some(sim) => {
                // Dropping a future may spawn or wake (ignored: epoch changed, table is gone or fresh).
                let _ = catch_unwind(AssertUnwindSafe(move || drop(sim)));
            }
        }
    }
    let mut g = lock();
    *g = Some(Sim::default());
}

/// Install a hook called (outside the table lock) whenever a task becomes ready. Used by the
/// thread engine's worker to get unparked.
pub fn set_wake_hook(hook: Option<Arc<dyn Fn() + Send + Sync>>) {
    with(|sim| sim.wake_hook = hook);
}

fn add_task(kind: Kind, label: String, fut: BoxFut) -> TaskId {
    let hook = with(|sim| {
        let id = sim.tasks.len();
        sim.tasks.push(Task {
            kind,
            label,
            fut: Some(fut),
            queued: true,
            running: false,
            done: false,
            polls: 0,
            woken_at: None,
        });
        sim.ready.push_back(id);
        (id, sim.wake_hook.clone())
    });
    if let Some(h) = hook.1 {
        h();
    }
    hook.0
}

fn short_type_name<T: ?Sized>() -> String {
    let n = std::any::type_name::<T>();
    // Keep it readable: cut generic arguments.
    let base = n.split('<').next().unwrap_or(n);
    base.to_string()
}

// ---------------------------------------------------------------------------------------------
// JoinHandle
// ---------------------------------------------------------------------------------------------

#[derive(Debug)]
pub struct JoinError {
    cancelled: bool,
    msg: String,
}

impl JoinError {
    pub fn is_cancelled(&self) -> bool {
        self.cancelled
    }
    pub fn is_panic(&self) -> bool {
        !self.cancelled
    }
}

impl std::fmt::Display for JoinError {
    fn fmt(&self, f: &mut std::fmt::Formatter<'_>) -> std::fmt::Result {
        if self.cancelled {
            write!(f, "task was cancelled")
        } else {
            write!(f, "task panicked: {}", self.msg)
        }
    }
}

impl std::error::Error for JoinError {}

struct JoinSlot<T> {
    result: Option<Result<T, JoinError>>,
    waker: Option<Waker>,
}

pub struct JoinHandle<T> {
    slot: Arc<Mutex<JoinSlot<T>>>,
    id: TaskId,
}

impl<T> std::fmt::Debug for JoinHandle<T> {
    fn fmt(&self, f: &mut std::fmt::Formatter<'_>) -> std::fmt::Result {
        f.debug_struct("JoinHandle").field("id", &self.id).finish()
    }
}

impl<T> Unpin for JoinHandle<T> {}

impl<T> JoinHandle<T> {
    pub fn id(&self) -> TaskId {
        self.id
    }

    pub fn abort(&self) {
        cancel(self.id);
    }

    pub fn is_finished(&self) -> bool {
        self.slot.lock().unwrap().result.is_some()
    }
}

impl<T> Future for JoinHandle<T> {
    type Output = Result<T, JoinError>;

    fn poll(self: Pin<&mut Self>, cx: &mut Context<'_>) -> Poll<Self::Output> {
        let mut slot = self.slot.lock().unwrap();
        match slot.result.take() {
            Some(r) => Poll::Ready(r),
            None => {
                slot.waker = Some(cx.waker().clone());
                Poll::Pending
            }
        }
    }
}

struct Completer<T> {
    slot: Arc<Mutex<JoinSlot<T>>>,
    completed: bool,
}

impl<T> Completer<T> {
    fn set(&mut self, r: Result<T, JoinError>) {
        self.completed = true;
        let waker = {
            let mut slot = self.slot.lock().unwrap();
            slot.result = Some(r);
            slot.waker.take()
        };
        if let Some(w) = waker {
            w.wake();
        }
    }
}

impl<T> Drop for Completer<T> {
    fn drop(&mut self) {
        if !self.completed {
            let msg = if std::thread::panicking() { "panicked" } else { "cancelled" };
            let cancelled = !std::thread::panicking();
            self.set(Err(JoinError {
                cancelled,
                msg: msg.to_string(),
            }));
        }
    }
}

pub fn spawn_async<F>(future: F) -> JoinHandle<F::Output>
where
    F: Future + Send + 'static,
    F::Output: Send + 'static,
{
    spawn_labelled(short_type_name::<F>(), future)
}

pub fn spawn_labelled<F>(label: String, future: F) -> JoinHandle<F::Output>
where
    F: Future + Send + 'static,
    F::Output: Send + 'static,
{
    let slot = Arc::new(Mutex::new(JoinSlot {
        result: None,
        waker: None,
    }));
    let mut completer = Completer {
        slot: slot.clone(),
        completed: false,
    };
    let wrapped = async move {
        let out = future.await;
        completer.set(Ok(out));
    };
    let id = add_task(Kind::Async, label, Box::pin(wrapped));
    JoinHandle { slot, id }
}

pub fn spawn_blocking<F, R>(func: F) -> JoinHandle<R>
where
    F: FnOnce() -> R + Send + 'static,
    R: Send + 'static,
{
    let slot = Arc::new(Mutex::new(JoinSlot {
        result: None,
        waker: None,
    }));
    let mut completer = Completer {
        slot: slot.clone(),
        completed: false,
    };
    let wrapped = async move {
        let out = func();
        completer.set(Ok(out));
    };
    let id = add_task(Kind::Blocking, format!("blocking:{}", short_type_name::<F>()), Box::pin(wrapped));
    JoinHandle { slot, id }
}

// ---------------------------------------------------------------------------------------------
// Explorer surface
// ---------------------------------------------------------------------------------------------

#[derive(Debug, Clone)]
pub struct TaskInfo {
    pub id: TaskId,
    pub kind: Kind,
    pub label: String,
    pub polls: u32,
}

/// Ready tasks in the order they became ready (FIFO).
pub fn ready() -> Vec<TaskId> {
    with(|sim| {
        sim.ready
            .iter()
            .copied()
            .filter(|id| {
                let t = &sim.tasks[*id];
                !t.done && !t.running
            })
            .collect()
    })
}

pub fn ready_infos() -> Vec<TaskInfo> {
    with(|sim| {
        sim.ready
            .iter()
            .copied()
            .filter(|id| {
                let t = &sim.tasks[*id];
                !t.done && !t.running
            })
            .map(|id| {
                let t = &sim.tasks[id];
                TaskInfo {
                    id,
                    kind: t.kind,
                    label: t.label.clone(),
                    polls: t.polls,
                }
            })
            .collect()
    })
}

pub fn task_label(id: TaskId) -> String {
    with(|sim| sim.tasks.get(id).map(|t| t.label.clone()).unwrap_or_default())
}

pub fn task_kind(id: TaskId) -> Option<Kind> {
    with(|sim| sim.tasks.get(id).map(|t| t.kind))
}

pub fn is_done(id: TaskId) -> bool {
    with(|sim| sim.tasks.get(id).map(|t| t.done).unwrap_or(true))
}

/// Number of tasks that exist and are not finished (ready or waiting).
pub fn live_tasks() -> usize {
    with(|sim| sim.tasks.iter().filter(|t| !t.done).count())
}

pub fn live_task_labels() -> Vec<(TaskId, String)> {
    with(|sim| {
        sim.tasks
            .iter()
            .enumerate()
            .filter(|(_, t)| !t.done)
            .map(|(i, t)| (i, t.label.clone()))
            .collect()
    })
}

pub fn total_tasks() -> usize {
    with(|sim| sim.tasks.len())
}

/// Poll one ready task once. Returns `true` if the task finished. Panics inside the task are caught,
/// recorded (see [`take_panics`]) and finish the task.
pub fn poll(id: TaskId) -> bool {
    let epoch = EPOCH.load(Ordering::SeqCst);
    let fut = with(|sim| {
        let t = sim.tasks.get_mut(id).expect("vrt: poll of unknown task");
        assert!(!t.done, "vrt: poll of finished task {id}");
        assert!(t.queued, "vrt: poll of task {id} that is not ready");
        assert!(!t.running, "vrt: re-entrant poll of task {id}");
        t.queued = false;
        t.running = true;
        t.polls += 1;
        if let Some(pos) = sim.ready.iter().position(|x| *x == id) {
            sim.ready.remove(pos);
        }
        t.fut.take().expect("vrt: task without future")
    });
    let waker = Waker::from(Arc::new(TaskWaker { id, epoch }));
    let mut cx = Context::from_waker(&waker);
    let mut fut = fut;
    let res = catch_unwind(AssertUnwindSafe(|| fut.as_mut().poll(&mut cx)));
    match res {
        Ok(Poll::Pending) => {
            if epoch != EPOCH.load(Ordering::SeqCst) {
                // The table was reset while polling (should not happen); drop the future.
                drop(fut);
                return true;
            }
            with(|sim| {
                let t = &mut sim.tasks[id];
                t.fut = Some(fut);
                t.running = false;
            });
            false
        }
        Ok(Poll::Ready(())) => {
            with(|sim| {
                let t = &mut sim.tasks[id];
                t.running = false;
                t.done = true;
                if t.queued {
                    t.queued = false;
                    if let Some(pos) = sim.ready.iter().position(|x| *x == id) {
                        sim.ready.remove(pos);
                    }
                }
            });
            drop(fut);
            true
        }
        Err(payload) => {
            let msg = panic_message(&payload);
            with(|sim| {
                let t = &mut sim.tasks[id];
                t.running = false;
                t.done = true;
                if t.queued {
                    t.queued = false;
                    if let Some(pos) = sim.ready.iter().position(|x| *x == id) {
                        sim.ready.remove(pos);
                    }
                }
                let label = t.label.clone();
                sim.panics.push(format!("task {id} ({label}) panicked: {msg}"));
            });
            let _ = catch_unwind(AssertUnwindSafe(move || drop(fut)));
            true
        }
    }
}

pub fn panic_message(payload: &Box<dyn Any + Send>) -> String {
    if let Some(s) = payload.downcast_ref::<&str>() {
        s.to_string()
    } else if let Some(s) = payload.downcast_ref::<String>() {
        s.clone()
    } else {
        "<non-string panic payload>".to_string()
    }
}

/// Cancel a task: its future is dropped, its `JoinHandle` resolves to a cancelled `JoinError`.
pub fn cancel(id: TaskId) -> bool {
    let fut = with(|sim| {
        let t = match sim.tasks.get_mut(id) {
            Some(t) => t,
            None => return None,
        };
        if t.done || t.running {
            return None;
        }
        t.done = true;
        if t.queued {
            t.queued = false;
            if let Some(pos) = sim.ready.iter().position(|x| *x == id) {
                sim.ready.remove(pos);
            }
        }
        t.fut.take()
    });
    match fut {
        Some(f) => {
            let _ = catch_unwind(AssertUnwindSafe(move || drop(f)));
            true
        }
        None => false,
    }
}

pub fn take_panics() -> Vec<String> {
    with(|sim| std::mem::take(&mut sim.panics))
}

pub fn record_panic(msg: String) {
    with(|sim| sim.panics.push(msg));
}

// ---------------------------------------------------------------------------------------------
// Timers
// ---------------------------------------------------------------------------------------------

pub struct Sleep {
    id: TimerId,
    epoch: u64,
}

impl std::fmt::Debug for Sleep {
    fn fmt(&self, f: &mut std::fmt::Formatter<'_>) -> std::fmt::Result {
        f.debug_struct("Sleep").field("id", &self.id).finish()
    }
}

pub fn sleep(d: Duration) -> Sleep {
    let epoch = EPOCH.load(Ordering::SeqCst);
    let id = with(|sim| {
        let id = sim.timers.len();
        let deadline = sim.now + d;
        sim.timers.push(Timer {
            deadline,
            fired: d.is_zero(),
            dropped: false,
            waker: None,
        });
        id
    });
    Sleep { id, epoch }
}

impl Future for Sleep {
    type Output = ();

    fn poll(self: Pin<&mut Self>, cx: &mut Context<'_>) -> Poll<()> {
        if self.epoch != EPOCH.load(Ordering::SeqCst) {
            return Poll::Ready(());
        }
        with(|sim| {
            let t = &mut sim.timers[self.id];
            if t.fired {
                Poll::Ready(())
            } else {
                t.waker = Some(cx.waker().clone());
                Poll::Pending
            }
        })
    }
}

impl Drop for Sleep {
    fn drop(&mut self) {
        if self.epoch != EPOCH.load(Ordering::SeqCst) {
            return;
        }
        with(|sim| {
            if let Some(t) = sim.timers.get_mut(self.id) {
                t.dropped = true;
                t.waker = None;
            }
        });
    }
}

/// Pending timers that some task is waiting on, earliest deadline first.
pub fn pending_timers() -> Vec<TimerId> {
    with(|sim| {
        let mut v: Vec<(Duration, TimerId)> = sim
            .timers
            .iter()
            .enumerate()
            .filter(|(_, t)| !t.fired && !t.dropped && t.waker.is_some())
            .map(|(i, t)| (t.deadline, i))
            .collect();
        v.sort();
        v.into_iter().map(|(_, i)| i).collect()
    })
}

pub fn fire(id: TimerId) {
    let waker = with(|sim| {
        let deadline = sim.timers[id].deadline;
        if deadline > sim.now {
            sim.now = deadline;
        }
        let t = &mut sim.timers[id];
        t.fired = true;
        t.waker.take()
    });
    if let Some(w) = waker {
        w.wake();
    }
}

pub fn now() -> Duration {
    with(|sim| sim.now)
}

// ---------------------------------------------------------------------------------------------
// Convenience drivers
// ---------------------------------------------------------------------------------------------

/// Poll ready tasks in FIFO order (firing timers when nothing else can run) until nothing is
/// ready, or `max_steps` polls were made. Returns the number of polls.
pub fn run_until_stalled(max_steps: usize) -> usize {
    let mut steps = 0;
    loop {
        if steps >= max_steps {
            return steps;
        }
        let r = ready();
        if let Some(id) = r.first() {
            poll(*id);
            steps += 1;
            continue;
        }
        let t = pending_timers();
        if let Some(id) = t.first() {
            fire(*id);
            continue;
        }
        return steps;
    }
}

/// Drive the table (FIFO) until `handle` resolves. Returns `None` if the table stalls first.
pub fn block_on_handle<T>(mut handle: JoinHandle<T>, max_steps: usize) -> Option<Result<T, JoinError>> {
    let waker = Waker::from(Arc::new(NoopWake));
    let mut cx = Context::from_waker(&waker);
    let mut steps = 0;
    loop {
        if let Poll::Ready(r) = Pin::new(&mut handle).poll(&mut cx) {
            return Some(r);
        }
        if steps >= max_steps {
            return None;
        }
        let r = ready();
        if let Some(id) = r.first() {
            poll(*id);
            steps += 1;
            continue;
        }
        let t = pending_timers();
        if let Some(id) = t.first() {
            fire(*id);
            continue;
        }
        return None;
    }
}

/// Spawn `fut` as a task and drive the table FIFO until it completes.
pub fn block_on<F>(fut: F) -> F::Output
where
    F: Future + Send + 'static,
    F::Output: Send + 'static,
{
    let h = spawn_labelled("block_on".to_string(), fut);
    match block_on_handle(h, 10_000_000) {
        Some(Ok(v)) => v,
        Some(Err(e)) => panic!("vrt::block_on: task failed: {e}; panics: {:?}", take_panics()),
        None => panic!(
            "vrt::block_on: stalled; live tasks: {:?}",
            live_task_labels()
        ),
    }
}

pub struct NoopWake;

impl Wake for NoopWake {
    fn wake(self: Arc<Self>) {}
}

pub fn noop_waker() -> Waker {
    Waker::from(Arc::new(NoopWake))
}
