//! `plshim` — a `parking_lot` facade: the same type names, as `lock_api` aliases over raw locks that
//! hand every blocking decision to the cooperative scheduler in [`sched`].
//!
//! * Threads registered with the scheduler (Engine T) yield at every acquire / release.
//! * Unregistered threads (Engines S and V, `resize()`'s helper threads, dependency code) fall back to
//!   try + `yield_now`, so the crate stays a correct lock for the rest of the dependency graph.
//! * Every thread keeps a list of the locks it holds: [`held_by_this_thread`] is the monitor C16 uses,
//!   and re-acquiring a lock the thread already holds exclusively is reported by a panic
//!   ("self-deadlock") instead of a hang.

pub mod sched;

use std::{
    cell::RefCell,
    sync::atomic::{AtomicUsize, Ordering},
};

pub use lock_api;

thread_local! {
    static HELD: RefCell<Vec<(usize, bool)>> = const { RefCell::new(Vec::new()) };
}

/// Number of facade locks (mutexes, rwlocks in either mode) currently held by the calling thread.
pub fn held_by_this_thread() -> usize {
    HELD.try_with(|h| h.borrow().len()).unwrap_or(0)
}

/// Addresses (and mode: `true` = exclusive) of the locks held by the calling thread.
pub fn held_locks() -> Vec<(usize, bool)> {
    HELD.try_with(|h| h.borrow().clone()).unwrap_or_default()
}

fn note_acquire(addr: usize, exclusive: bool) {
    let _ = HELD.try_with(|h| h.borrow_mut().push((addr, exclusive)));
}

fn note_release(addr: usize, exclusive: bool) {
    let _ = HELD.try_with(|h| {
        let mut h = h.borrow_mut();
        if let Some(pos) = h.iter().rposition(|e| *e == (addr, exclusive)) {
            h.remove(pos);
        }
    });
}

fn check_self_deadlock(addr: usize, want_exclusive: bool) {
    let conflict = HELD
        .try_with(|h| {
            h.borrow()
                .iter()
                .any(|(a, excl)| *a == addr && (*excl || want_exclusive))
        })
        .unwrap_or(false);
    if conflict {
        panic!(
            "plshim: self-deadlock: thread re-acquires lock {addr:#x} (exclusive={want_exclusive}) that it already holds"
        );
    }
}

// ---------------------------------------------------------------------------------------------
// Raw mutex
// ---------------------------------------------------------------------------------------------

pub struct RawMutex {
    state: AtomicUsize,
}

impl RawMutex {
    fn addr(&self) -> usize {
        self as *const _ as usize
    }

    fn try_acquire(&self) -> bool {
        self.state
            .compare_exchange(0, 1, Ordering::SeqCst, Ordering::SeqCst)
            .is_ok()
    }
}

unsafe impl lock_api::RawMutex for RawMutex {
    #[allow(clippy::declare_interior_mutable_const)]
    const INIT: RawMutex = RawMutex {
        state: AtomicUsize::new(0),
    };

    type GuardMarker = lock_api::GuardNoSend;

    fn lock(&self) {
        let addr = self.addr();
        check_self_deadlock(addr, true);
        if sched::registered() {
            loop {
                sched::point(sched::Why::Acquire(addr));
                if self.try_acquire() {
                    break;
                }
                sched::block_on_lock(addr);
            }
        } else {
            while !self.try_acquire() {
                std::thread::yield_now();
            }
        }
        note_acquire(addr, true);
    }

    fn try_lock(&self) -> bool {
        let addr = self.addr();
        if sched::registered() {
            sched::point(sched::Why::Acquire(addr));
        }
        let ok = self.try_acquire();
        if ok {
            note_acquire(addr, true);
        }
        ok
    }

    unsafe fn unlock(&self) {
        let addr = self.addr();
        self.state.store(0, Ordering::SeqCst);
        note_release(addr, true);
        sched::on_unlock(addr);
    }

    fn is_locked(&self) -> bool {
        self.state.load(Ordering::SeqCst) != 0
    }
}

// ---------------------------------------------------------------------------------------------
// Raw rwlock
// ---------------------------------------------------------------------------------------------

const WRITER: usize = 1 << (usize::BITS - 1);

pub struct RawRwLock {
    state: AtomicUsize,
}

impl RawRwLock {
    fn addr(&self) -> usize {
        self as *const _ as usize
    }

    fn try_shared(&self) -> bool {
        let mut cur = self.state.load(Ordering::SeqCst);
        loop {
            if cur & WRITER != 0 {
                return false;
            }
            match self
                .state
                .compare_exchange(cur, cur + 1, Ordering::SeqCst, Ordering::SeqCst)
            {
                Ok(_) => return true,
                Err(c) => cur = c,
            }
        }
    }

    fn try_exclusive(&self) -> bool {
        self.state
            .compare_exchange(0, WRITER, Ordering::SeqCst, Ordering::SeqCst)
            .is_ok()
    }
}

unsafe impl lock_api::RawRwLock for RawRwLock {
    #[allow(clippy::declare_interior_mutable_const)]
    const INIT: RawRwLock = RawRwLock {
        state: AtomicUsize::new(0),
    };

    type GuardMarker = lock_api::GuardNoSend;

    fn lock_shared(&self) {
        let addr = self.addr();
        check_self_deadlock(addr, false);
        if sched::registered() {
            loop {
                sched::point(sched::Why::Acquire(addr));
                if self.try_shared() {
                    break;
                }
                sched::block_on_lock(addr);
            }
        } else {
            while !self.try_shared() {
                std::thread::yield_now();
            }
        }
        note_acquire(addr, false);
    }

    fn try_lock_shared(&self) -> bool {
        let addr = self.addr();
        if sched::registered() {
            sched::point(sched::Why::Acquire(addr));
        }
        let ok = self.try_shared();
        if ok {
            note_acquire(addr, false);
        }
        ok
    }

    unsafe fn unlock_shared(&self) {
        let addr = self.addr();
        self.state.fetch_sub(1, Ordering::SeqCst);
        note_release(addr, false);
        sched::on_unlock(addr);
    }

    fn lock_exclusive(&self) {
        let addr = self.addr();
        check_self_deadlock(addr, true);
        if sched::registered() {
            loop {
                sched::point(sched::Why::Acquire(addr));
                if self.try_exclusive() {
                    break;
                }
                sched::block_on_lock(addr);
            }
        } else {
            while !self.try_exclusive() {
                std::thread::yield_now();
            }
        }
        note_acquire(addr, true);
    }

    fn try_lock_exclusive(&self) -> bool {
        let addr = self.addr();
        if sched::registered() {
            sched::point(sched::Why::Acquire(addr));
        }
        let ok = self.try_exclusive();
        if ok {
            note_acquire(addr, true);
        }
        ok
    }

    unsafe fn unlock_exclusive(&self) {
        let addr = self.addr();
        self.state.store(0, Ordering::SeqCst);
        note_release(addr, true);
        sched::on_unlock(addr);
    }

    fn is_locked(&self) -> bool {
        self.state.load(Ordering::SeqCst) != 0
    }

    fn is_locked_exclusive(&self) -> bool {
        self.state.load(Ordering::SeqCst) & WRITER != 0
    }
}

// ---------------------------------------------------------------------------------------------
// parking_lot's public names
// ---------------------------------------------------------------------------------------------

pub type Mutex<T> = lock_api::Mutex<RawMutex, T>;
pub type MutexGuard<'a, T> = lock_api::MutexGuard<'a, RawMutex, T>;
pub type MappedMutexGuard<'a, T> = lock_api::MappedMutexGuard<'a, RawMutex, T>;

pub type RwLock<T> = lock_api::RwLock<RawRwLock, T>;
pub type RwLockReadGuard<'a, T> = lock_api::RwLockReadGuard<'a, RawRwLock, T>;
pub type RwLockWriteGuard<'a, T> = lock_api::RwLockWriteGuard<'a, RawRwLock, T>;
pub type MappedRwLockReadGuard<'a, T> = lock_api::MappedRwLockReadGuard<'a, RawRwLock, T>;
pub type MappedRwLockWriteGuard<'a, T> = lock_api::MappedRwLockWriteGuard<'a, RawRwLock, T>;

pub const fn const_mutex<T>(val: T) -> Mutex<T> {
    Mutex::const_new(<RawMutex as lock_api::RawMutex>::INIT, val)
}

pub const fn const_rwlock<T>(val: T) -> RwLock<T> {
    RwLock::const_new(<RawRwLock as lock_api::RawRwLock>::INIT, val)
}
