//! `vsched` — cooperative scheduler that serialises registered OS threads with a baton.
//!
//! Exactly one registered thread runs at a time. At every scheduling point the running thread asks
//! the installed chooser which enabled thread runs next. Scheduling points: lock acquire, lock
//! release, spawn, join, park, thread exit, and explicit [`yield_point`] calls.
//!
//! "No enabled thread" while some thread is unfinished is a deadlock; it is handed to the
//! installed deadlock handler (which normally reports and exits the worker process — the blocked
//! threads cannot be unwound safely).

use std::{
    cell::RefCell,
    sync::{
        atomic::{AtomicBool, Ordering},
        Arc, Condvar, Mutex, MutexGuard,
    },
};

#[derive(Debug, Clone, Copy, PartialEq, Eq)]
pub enum Why {
    Acquire(usize),
    Release(usize),
    Spawn,
    Join(usize),
    Park,
    Exit,
    User(&'static str),
    /// A plain scheduling point (e.g. between two steps of a worker loop): the running thread stays the default.
    Step(&'static str),
}

#[derive(Debug, Clone, PartialEq, Eq)]
enum Status {
    Runnable,
    BlockedLock(usize),
    Joining(usize),
    Parked,
    Finished,
}

struct Th {
    status: Status,
    cv: Arc<Condvar>,
    unpark_token: bool,
    name: String,
}

/// What the chooser sees at a scheduling point.
#[derive(Debug, Clone)]
pub struct Point {
    /// Enabled thread ids in canonical order: the running thread first if it is still enabled,
    /// then ascending ids.
    pub enabled: Vec<usize>,
    /// The running thread is `enabled[0]`: choosing anything else is a preemption.
    pub current_enabled: bool,
    pub running: usize,
    pub why: Why,
}

pub type Chooser = Box<dyn FnMut(&Point) -> usize + Send>;
pub type DeadlockHandler = Box<dyn FnMut(&str) + Send>;

struct State {
    threads: Vec<Th>,
    current: usize,
    chooser: Chooser,
    on_deadlock: DeadlockHandler,
    aborted: Option<String>,
    steps: usize,
    max_steps: usize,
    point_after_unlock: bool,
    switches: usize,
}

pub struct Sched {
    st: Mutex<State>,
}

static ACTIVE: AtomicBool = AtomicBool::new(false);
static CURRENT: Mutex<Option<Arc<Sched>>> = Mutex::new(None);

thread_local! {
    static MY: RefCell<Option<(Arc<Sched>, usize)>> = const { RefCell::new(None) };
}

fn my() -> Option<(Arc<Sched>, usize)> {
    MY.try_with(|m| m.borrow().clone()).ok().flatten()
}

fn lock_state(s: &Sched) -> MutexGuard<'_, State> {
    match s.st.lock() {
        Ok(g) => g,
        Err(p) => p.into_inner(),
    }
}

/// Is the calling thread controlled by a scheduler?
pub fn registered() -> bool {
    if !ACTIVE.load(Ordering::Relaxed) {
        return false;
    }
    my().is_some()
}

pub struct Config {
    pub chooser: Chooser,
    pub on_deadlock: DeadlockHandler,
    pub max_steps: usize,
    pub point_after_unlock: bool,
}

/// Start a controlled execution; the calling thread becomes thread 0 and holds the baton.
pub fn begin(cfg: Config) {
    let sched = Arc::new(Sched {
        st: Mutex::new(State {
            threads: vec![Th {
                status: Status::Runnable,
                cv: Arc::new(Condvar::new()),
                unpark_token: false,
                name: "main".to_string(),
            }],
            current: 0,
            chooser: cfg.chooser,
            on_deadlock: cfg.on_deadlock,
            aborted: None,
            steps: 0,
            max_steps: cfg.max_steps,
            point_after_unlock: cfg.point_after_unlock,
            switches: 0,
        }),
    });
    *CURRENT.lock().unwrap() = Some(sched.clone());
    MY.with(|m| *m.borrow_mut() = Some((sched, 0)));
    ACTIVE.store(true, Ordering::SeqCst);
}

#[derive(Debug, Clone, Default)]
pub struct Summary {
    pub steps: usize,
    pub switches: usize,
    pub threads: usize,
    pub aborted: Option<String>,
}

/// End the controlled execution (called by thread 0 after it joined everything).
pub fn end() -> Summary {
    ACTIVE.store(false, Ordering::SeqCst);
    let s = CURRENT.lock().unwrap().take();
    MY.with(|m| *m.borrow_mut() = None);
    match s {
        Some(s) => {
            let st = lock_state(&s);
            Summary {
                steps: st.steps,
                switches: st.switches,
                threads: st.threads.len(),
                aborted: st.aborted.clone(),
            }
        }
        None => Summary::default(),
    }
}

fn enabled_of(st: &State, me: usize) -> (Vec<usize>, bool) {
    let mut v = Vec::with_capacity(st.threads.len());
    let cur = st.threads[me].status == Status::Runnable;
    if cur {
        v.push(me);
    }
    for (i, t) in st.threads.iter().enumerate() {
        if i != me && t.status == Status::Runnable {
            v.push(i);
        }
    }
    (v, cur)
}

fn describe(st: &State) -> String {
    let mut s = String::new();
    for (i, t) in st.threads.iter().enumerate() {
        s.push_str(&format!("[t{i} {} {:?}] ", t.name, t.status));
    }
    s
}

/// Decide who runs next and, if it is not `me`, hand over the baton and wait to get it back.
/// `me` may be non-runnable (blocked / finished); if it is finished the function returns without waiting.
fn reschedule<'a>(sched: &'a Sched, mut st: MutexGuard<'a, State>, me: usize, why: Why) -> MutexGuard<'a, State> {
    if st.aborted.is_some() {
        return st;
    }
    st.steps += 1;
    if st.steps > st.max_steps {
        let d = format!("step horizon {} exceeded (livelock?): {}", st.max_steps, describe(&st));
        return abort(st, d);
    }
    let (mut enabled, cur) = enabled_of(&st, me);
    // A voluntary yield (a thread waiting for others in a loop): the other threads come first, so the
    // default continuation is to let somebody else run; carrying on with the yielding thread (or picking a
    // particular other thread) is an alternative that costs a deviation like any other.
    if cur && matches!(why, Why::User(_)) && enabled.len() > 1 {
        enabled.retain(|t| *t != me);
        enabled.push(me);
    }
    if enabled.is_empty() {
        let all_done = st.threads.iter().all(|t| t.status == Status::Finished);
        if all_done {
            return st;
        }
        let d = format!("deadlock: no enabled thread: {}", describe(&st));
        return abort(st, d);
    }
    let next = if enabled.len() == 1 {
        enabled[0]
    } else {
        let p = Point {
            enabled: enabled.clone(),
            current_enabled: cur,
            running: me,
            why,
        };
        let idx = (st.chooser)(&p);
        assert!(idx < enabled.len(), "vsched: chooser returned {idx} of {}", enabled.len());
        enabled[idx]
    };
    if next != me {
        st.switches += 1;
        st.current = next;
        st.threads[next].cv.notify_all();
        if st.threads[me].status == Status::Finished {
            return st;
        }
        let cv = st.threads[me].cv.clone();
        st = match cv.wait_while(st, |s| s.current != me && s.aborted.is_none()) {
            Ok(g) => g,
            Err(p) => p.into_inner(),
        };
        let _ = sched;
    }
    st
}

fn abort(mut st: MutexGuard<'_, State>, desc: String) -> MutexGuard<'_, State> {
    st.aborted = Some(desc.clone());
    (st.on_deadlock)(&desc);
    // If the handler returns, give control to thread 0 and let everybody else stay blocked.
    st.current = 0;
    st.threads[0].cv.notify_all();
    st
}

fn after_wait(st: MutexGuard<'_, State>, me: usize, ctx: &str) {
    if let Some(d) = st.aborted.clone() {
        drop(st);
        if me == 0 {
            panic!("vsched: execution aborted during {ctx}: {d}");
        } else {
            // A non-main thread must never continue after an abort: park it forever.
            loop {
                std::thread::park();
            }
        }
    }
}

/// A scheduling point at which the running thread stays enabled.
pub fn point(why: Why) {
    let Some((sched, me)) = my() else { return };
    if std::thread::panicking() {
        return;
    }
    let st = lock_state(&sched);
    if st.aborted.is_some() {
        return;
    }
    let st = reschedule(&sched, st, me, why);
    after_wait(st, me, "point");
}

pub fn yield_point(name: &'static str) {
    point(Why::User(name));
}

/// A scheduling point at which carrying on with the running thread is the default (a switch is a preemption).
pub fn step_point(name: &'static str) {
    point(Why::Step(name));
}

/// The running thread failed to acquire `addr`: block until somebody releases it.
pub fn block_on_lock(addr: usize) {
    let Some((sched, me)) = my() else {
        std::thread::yield_now();
        return;
    };
    let mut st = lock_state(&sched);
    if st.aborted.is_some() {
        drop(st);
        std::thread::yield_now();
        return;
    }
    st.threads[me].status = Status::BlockedLock(addr);
    let st = reschedule(&sched, st, me, Why::Acquire(addr));
    after_wait(st, me, "lock");
}

/// Called by every unlock (any thread): wake the threads blocked on `addr`; a registered thread
/// additionally gets a scheduling point.
pub fn on_unlock(addr: usize) {
    if !ACTIVE.load(Ordering::Relaxed) {
        return;
    }
    let mine = my();
    let sched = match &mine {
        Some((s, _)) => Some(s.clone()),
        None => CURRENT.lock().ok().and_then(|g| g.clone()),
    };
    let Some(sched) = sched else { return };
    let after = {
        let mut st = lock_state(&sched);
        for t in st.threads.iter_mut() {
            if t.status == Status::BlockedLock(addr) {
                t.status = Status::Runnable;
            }
        }
        st.point_after_unlock
    };
    if after && mine.is_some() && !std::thread::panicking() {
        point(Why::Release(addr));
    }
}

pub struct JoinHandle<T> {
    tid: usize,
    rx: std::sync::mpsc::Receiver<std::thread::Result<T>>,
}

impl<T> JoinHandle<T> {
    pub fn tid(&self) -> usize {
        self.tid
    }
}

type PoolJob = Box<dyn FnOnce() + Send + 'static>;

/// Idle pooled OS threads. Creating an OS thread costs ~0.5 ms in this sandbox and does not
/// parallelise across processes, so controlled threads are recycled between executions.
static POOL: Mutex<Vec<std::sync::mpsc::Sender<PoolJob>>> = Mutex::new(Vec::new());

fn pool_run(job: PoolJob) {
    let idle = POOL.lock().unwrap().pop();
    let tx = match idle {
        Some(tx) => tx,
        None => {
            let (tx, rx) = std::sync::mpsc::channel::<PoolJob>();
            let tx2 = tx.clone();
            std::thread::Builder::new()
                .name("vsched-pool".to_string())
                .spawn(move || {
                    while let Ok(job) = rx.recv() {
                        job();
                        // back to the pool
                        POOL.lock().unwrap().push(tx2.clone());
                    }
                })
                .expect("spawn pooled OS thread");
            tx
        }
    };
    tx.send(job).expect("pooled thread is gone");
}

/// Spawn a controlled thread. Must be called from a registered thread.
pub fn spawn<F, T>(name: &str, f: F) -> JoinHandle<T>
where
    F: FnOnce() -> T + Send + 'static,
    T: Send + 'static,
{
    let (sched, _me) = my().expect("vsched::spawn from an unregistered thread");
    let tid = {
        let mut st = lock_state(&sched);
        st.threads.push(Th {
            status: Status::Runnable,
            cv: Arc::new(Condvar::new()),
            unpark_token: false,
            name: name.to_string(),
        });
        st.threads.len() - 1
    };
    let sched2 = sched.clone();
    let (rtx, rrx) = std::sync::mpsc::channel::<std::thread::Result<T>>();
    pool_run(Box::new(move || {
        MY.with(|m| *m.borrow_mut() = Some((sched2.clone(), tid)));
        // Wait for the baton.
        {
            let st = lock_state(&sched2);
            let cv = st.threads[tid].cv.clone();
            let st = match cv.wait_while(st, |s| s.current != tid && s.aborted.is_none()) {
                Ok(g) => g,
                Err(p) => p.into_inner(),
            };
            after_wait(st, tid, "start");
        }
        let out = std::panic::catch_unwind(std::panic::AssertUnwindSafe(f));
        // Hand the result over before passing the baton on, so that a joiner finds it.
        let _ = rtx.send(out);
        {
            let mut st = lock_state(&sched2);
            st.threads[tid].status = Status::Finished;
            for t in st.threads.iter_mut() {
                if t.status == Status::Joining(tid) {
                    t.status = Status::Runnable;
                }
            }
            let _st = reschedule(&sched2, st, tid, Why::Exit);
        }
        MY.with(|m| *m.borrow_mut() = None);
    }));
    point(Why::Spawn);
    JoinHandle { tid, rx: rrx }
}

/// Join a controlled thread. `Err` carries the panic payload of the thread.
pub fn join<T>(h: JoinHandle<T>) -> std::thread::Result<T> {
    if let Some((sched, me)) = my() {
        loop {
            point(Why::Join(h.tid));
            let mut st = lock_state(&sched);
            if st.aborted.is_some() || st.threads[h.tid].status == Status::Finished {
                break;
            }
            st.threads[me].status = Status::Joining(h.tid);
            let st = reschedule(&sched, st, me, Why::Join(h.tid));
            after_wait(st, me, "join");
        }
    }
    match h.rx.recv() {
        Ok(r) => r,
        Err(_) => Err(Box::new("vsched: controlled thread vanished without a result".to_string())),
    }
}

/// Thread id of the caller within the running execution.
pub fn current_tid() -> Option<usize> {
    my().map(|(_, t)| t)
}

/// Park the calling thread until [`unpark`]ed (token semantics like `std::thread::park`).
pub fn park() {
    let Some((sched, me)) = my() else {
        std::thread::park();
        return;
    };
    let mut st = lock_state(&sched);
    if st.aborted.is_some() {
        return;
    }
    if st.threads[me].unpark_token {
        st.threads[me].unpark_token = false;
        let st = reschedule(&sched, st, me, Why::Park);
        after_wait(st, me, "park");
        return;
    }
    st.threads[me].status = Status::Parked;
    let mut st = reschedule(&sched, st, me, Why::Park);
    st.threads[me].unpark_token = false;
    after_wait(st, me, "park");
}

pub fn unpark(tid: usize) {
    let sched = match my() {
        Some((s, _)) => Some(s),
        None => CURRENT.lock().ok().and_then(|g| g.clone()),
    };
    let Some(sched) = sched else { return };
    let mut st = lock_state(&sched);
    if tid >= st.threads.len() {
        return;
    }
    if st.threads[tid].status == Status::Parked {
        st.threads[tid].status = Status::Runnable;
    } else {
        st.threads[tid].unpark_token = true;
    }
}
