//! Iterative deviation bounding (Musuvathi–Qadeer context bounding generalised): an execution is a
//! function of the choices taken at its choice points; choice 0 is the base policy's default and is
//! free, any other choice costs one deviation unless the point is marked `free`.

use std::time::{Duration, Instant};

#[derive(Debug, Clone, Copy, PartialEq, Eq)]
pub struct PointRec {
    pub n: u32,
    pub chosen: u32,
    /// Alternatives at this point cost nothing (e.g. the running thread blocked: any successor is a
    /// non-preemptive switch).
    pub free: bool,
}

/// One execution's view of the exploration: replays `prefix`, then takes choice 0.
#[derive(Debug, Default)]
pub struct Ctx {
    prefix: Vec<u32>,
    pub points: Vec<PointRec>,
    /// Human-readable labels of the choices taken; only recorded when `trace` is set.
    pub trace: bool,
    pub labels: Vec<String>,
    /// Set when a replayed choice was out of range: the execution diverged from the recording.
    pub diverged: Option<String>,
}

impl Ctx {
    pub fn new(prefix: Vec<u32>) -> Self {
        Self {
            prefix,
            ..Default::default()
        }
    }

    pub fn with_trace(mut self, trace: bool) -> Self {
        self.trace = trace;
        self
    }

    /// Take a decision among `n` enabled alternatives (canonical order, 0 = default).
    pub fn choose(&mut self, n: usize, free: bool) -> usize {
        assert!(n >= 1, "choice point without alternatives");
        let i = self.points.len();
        let mut c = if i < self.prefix.len() { self.prefix[i] as usize } else { 0 };
        if c >= n {
            if self.diverged.is_none() {
                self.diverged = Some(format!(
                    "replay divergence at choice point {i}: recorded choice {c} but only {n} alternatives"
                ));
            }
            c = 0;
        }
        self.points.push(PointRec {
            n: n as u32,
            chosen: c as u32,
            free,
        });
        c
    }

    pub fn label(&mut self, f: impl FnOnce() -> String) {
        if self.trace {
            self.labels.push(f());
        }
    }

    pub fn choices(&self) -> Vec<u32> {
        self.points.iter().map(|p| p.chosen).collect()
    }

    pub fn deviations(&self) -> usize {
        self.points.iter().filter(|p| p.chosen != 0 && !p.free).count()
    }

    pub fn prefix_len(&self) -> usize {
        self.prefix.len()
    }
}

#[derive(Debug, Clone)]
pub struct ExploreLimits {
    pub bound: usize,
    pub max_execs: u64,
    pub deadline: Option<Instant>,
}

impl ExploreLimits {
    pub fn new(bound: usize) -> Self {
        Self {
            bound,
            max_execs: u64::MAX,
            deadline: None,
        }
    }
    pub fn with_max_execs(mut self, n: u64) -> Self {
        self.max_execs = n;
        self
    }
    pub fn with_wall(mut self, d: Duration) -> Self {
        self.deadline = Some(Instant::now() + d);
        self
    }
}

#[derive(Debug, Clone, Default)]
pub struct ExploreStats {
    pub executions: u64,
    pub choice_points: u64,
    pub max_enabled: u32,
    pub max_points: u32,
    pub max_deviations: u32,
    /// A cap stopped the search before the bounded space was exhausted.
    pub capped: bool,
    pub stopped_by_callback: bool,
}

impl ExploreStats {
    pub fn merge(&mut self, o: &ExploreStats) {
        self.executions += o.executions;
        self.choice_points += o.choice_points;
        self.max_enabled = self.max_enabled.max(o.max_enabled);
        self.max_points = self.max_points.max(o.max_points);
        self.max_deviations = self.max_deviations.max(o.max_deviations);
        self.capped |= o.capped;
        self.stopped_by_callback |= o.stopped_by_callback;
    }
}

/// Explore every execution of `run` with at most `limits.bound` deviations.
/// `run` executes once under the given `Ctx`; `check` inspects the finished execution and returns
/// `false` to stop the search (e.g. after a violation).
pub fn explore<R>(
    limits: &ExploreLimits,
    mut run: impl FnMut(&mut Ctx) -> R,
    mut check: impl FnMut(&Ctx, R) -> bool,
) -> ExploreStats {
    let mut stats = ExploreStats::default();
    let mut stack: Vec<Vec<u32>> = vec![vec![]];
    while let Some(prefix) = stack.pop() {
        if stats.executions >= limits.max_execs || limits.deadline.map(|d| Instant::now() >= d).unwrap_or(false) {
            stats.capped = true;
            break;
        }
        let plen = prefix.len();
        let mut ctx = Ctx::new(prefix);
        let r = run(&mut ctx);
        stats.executions += 1;
        stats.choice_points += ctx.points.len() as u64;
        stats.max_points = stats.max_points.max(ctx.points.len() as u32);
        if let Some(d) = &ctx.diverged {
            eprintln!("MACHINERY: {d}");
            std::process::exit(crate::EXIT_MACHINERY);
        }
        // Enumerate alternatives after the replayed prefix (deepest first so that the stack explores
        // in a DFS-like order with small memory).
        let mut cost = 0usize;
        let mut costs = Vec::with_capacity(ctx.points.len());
        for p in ctx.points.iter() {
            costs.push(cost);
            if p.chosen != 0 && !p.free {
                cost += 1;
            }
            stats.max_enabled = stats.max_enabled.max(p.n);
        }
        stats.max_deviations = stats.max_deviations.max(cost as u32);
        for i in (plen..ctx.points.len()).rev() {
            let p = ctx.points[i];
            if p.n <= 1 {
                continue;
            }
            let extra = if p.free { 0 } else { 1 };
            if costs[i] + extra > limits.bound {
                continue;
            }
            for alt in (1..p.n).rev() {
                let mut np: Vec<u32> = ctx.points[..i].iter().map(|q| q.chosen).collect();
                np.push(alt);
                stack.push(np);
            }
        }
        if !check(&ctx, r) {
            stats.stopped_by_callback = true;
            break;
        }
    }
    stats
}

#[cfg(test)]
mod tests {
    use super::*;

    #[test]
    fn counts_bounded_sequences() {
        // 3 binary choice points: bound 0 -> 1 execution, bound 1 -> 4, bound 2 -> 7, bound 3 -> 8.
        for (bound, want) in [(0usize, 1u64), (1, 4), (2, 7), (3, 8)] {
            let mut seen = std::collections::HashSet::new();
            let st = explore(
                &ExploreLimits::new(bound),
                |ctx| {
                    let a = ctx.choose(2, false);
                    let b = ctx.choose(2, false);
                    let c = ctx.choose(2, false);
                    (a, b, c)
                },
                |_, r| {
                    assert!(seen.insert(r));
                    true
                },
            );
            assert_eq!(st.executions, want);
        }
    }
}
