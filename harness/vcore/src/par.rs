//! Process-level parallelism: the coordinating process re-executes itself once per shard; shard `i`
//! of `n` handles the work items whose index is `i (mod n)` and writes a `ShardResult` JSON file.
//! Processes (not threads) are the unit because Engine T keeps scheduler state in process globals.

use std::{
    path::PathBuf,
    process::{Child, Command, Stdio},
    time::{Duration, Instant},
};

use crate::evidence::ShardResult;

pub struct ShardOutcome {
    pub result: ShardResult,
    pub machinery_errors: Vec<String>,
}

pub fn scratch_dir() -> PathBuf {
    let base = if std::path::Path::new("/dev/shm").is_dir() {
        PathBuf::from("/dev/shm")
    } else {
        std::env::temp_dir()
    };
    let d = base.join(format!("foyer-verif-{}", std::process::id()));
    let _ = std::fs::create_dir_all(&d);
    d
}

/// Run `n` worker processes `exe args... --shard i/n --shard-out file` and merge what they wrote.
pub fn run_shards(args: &[String], n: usize, wall_cap: Duration) -> ShardOutcome {
    let exe = std::env::current_exe().expect("current_exe");
    let dir = scratch_dir();
    let mut kids: Vec<(usize, Child, PathBuf)> = vec![];
    for i in 0..n {
        let out = dir.join(format!("shard-{i}.json"));
        let _ = std::fs::remove_file(&out);
        let child = Command::new(&exe)
            .args(args)
            .arg("--shard")
            .arg(format!("{i}/{n}"))
            .arg("--shard-out")
            .arg(&out)
            .stdin(Stdio::null())
            .stdout(Stdio::inherit())
            .stderr(Stdio::inherit())
            .spawn()
            .expect("spawn worker");
        kids.push((i, child, out));
    }
    let deadline = Instant::now() + wall_cap;
    let mut merged = ShardResult::default();
    let mut errs = vec![];
    for (i, mut child, out) in kids {
        let status = loop {
            match child.try_wait() {
                Ok(Some(s)) => break Some(s),
                Ok(None) => {
                    if Instant::now() >= deadline {
                        let _ = child.kill();
                        let _ = child.wait();
                        break None;
                    }
                    std::thread::sleep(Duration::from_millis(20));
                }
                Err(e) => {
                    errs.push(format!("shard {i}: wait failed: {e}"));
                    break None;
                }
            }
        };
        let journal = journal_path(&out);
        let mut died_on_item = false;
        match std::fs::read(&out) {
            Ok(bytes) => match serde_json::from_slice::<ShardResult>(&bytes) {
                Ok(r) => merged.merge(r),
                Err(e) => errs.push(format!("shard {i}: unreadable result: {e}")),
            },
            Err(_) => {
                // The worker died (abort, allocation failure, kill) while working on a journalled item:
                // for checks that declare it, that is a verdict about the item, not about the machinery.
                match std::fs::read(&journal).ok().and_then(|b| serde_json::from_slice::<crate::evidence::Violation>(&b).ok()) {
                    Some(v) => {
                        died_on_item = true;
                        merged.violations.push(v);
                        merged.capped = true;
                        merged.notes.insert(format!("shard {i} died while evaluating a journalled item; the rest of its share is unexplored"));
                    }
                    None => match status {
                        None => errs.push(format!("shard {i}: killed at the wall cap without a result")),
                        Some(s) => errs.push(format!("shard {i}: exited with {s} without a result")),
                    },
                }
            }
        }
        if let Some(s) = status {
            // 0 = fine, 3 = worker stopped early on a violation it had to abandon the process for.
            let code = s.code().unwrap_or(-1);
            if code != 0 && code != 3 && !died_on_item {
                errs.push(format!("shard {i}: exit status {s}"));
            }
        } else {
            merged.capped = true;
        }
        let _ = std::fs::remove_file(&out);
        let _ = std::fs::remove_file(&journal);
    }
    let _ = std::fs::remove_dir_all(&dir);
    ShardOutcome {
        result: merged,
        machinery_errors: errs,
    }
}

pub fn write_shard_result(path: &std::path::Path, r: &ShardResult) {
    let tmp = path.with_extension("tmp");
    std::fs::write(&tmp, serde_json::to_vec(r).unwrap()).expect("write shard result");
    std::fs::rename(tmp, path).expect("rename shard result");
}

pub fn journal_path(shard_out: &std::path::Path) -> PathBuf {
    shard_out.with_extension("journal")
}

static JOURNAL: std::sync::Mutex<Option<PathBuf>> = std::sync::Mutex::new(None);

/// Worker side: where to journal the item being evaluated (set once from `--shard-out`).
pub fn set_journal_for(shard_out: &std::path::Path) {
    *JOURNAL.lock().unwrap() = Some(journal_path(shard_out));
}

static PART: std::sync::atomic::AtomicUsize = std::sync::atomic::AtomicUsize::new(usize::MAX);

/// A composite property tells which of its parts is running: journalled verdicts (which bypass the
/// composite's own bookkeeping because the process dies) carry it, so that the replay is routed to that part.
pub fn set_part(i: Option<usize>) {
    PART.store(i.unwrap_or(usize::MAX), std::sync::atomic::Ordering::SeqCst);
}

/// Record the verdict to report if the process dies while evaluating the current item.
pub fn journal(v: &crate::evidence::Violation) {
    if let Some(p) = JOURNAL.lock().unwrap().as_ref() {
        let mut v = v.clone();
        let part = PART.load(std::sync::atomic::Ordering::SeqCst);
        if part != usize::MAX && v.witness.is_object() {
            v.witness["part"] = serde_json::json!(part);
        }
        let _ = std::fs::write(p, serde_json::to_vec(&v).unwrap());
    }
}

pub fn journal_clear() {
    if let Some(p) = JOURNAL.lock().unwrap().as_ref() {
        let _ = std::fs::remove_file(p);
    }
}
