//! `/verif/known_findings.json` — committed, read-only at run time (DESIGN.md §7).
//!
//! A violation is reported as `KNOWN-FINDING` (exit 0) only if a `known` entry has the same property
//! and clause and every string in its `match` list occurs in the violation's signature. `fixed`
//! entries suppress nothing.

use serde::{Deserialize, Serialize};

use crate::evidence::Violation;

#[derive(Debug, Clone, Serialize, Deserialize)]
pub struct Finding {
    pub property: String,
    /// `known` or `fixed`.
    pub status: String,
    #[serde(default)]
    pub commit: Option<String>,
    pub clause: String,
    /// Substrings that must all occur in the violation signature.
    #[serde(default, rename = "match")]
    pub matches: Vec<String>,
    pub what: String,
}

pub fn load(path: &std::path::Path) -> Vec<Finding> {
    match std::fs::read(path) {
        Ok(b) => serde_json::from_slice(&b).unwrap_or_else(|e| {
            eprintln!("MACHINERY: cannot parse {}: {e}", path.display());
            std::process::exit(crate::EXIT_MACHINERY);
        }),
        Err(_) => vec![],
    }
}

pub fn matching<'a>(findings: &'a [Finding], v: &Violation) -> Option<&'a Finding> {
    findings.iter().find(|f| {
        f.status == "known"
            && f.property == v.property
            && f.clause == v.clause
            && f.matches.iter().all(|m| v.signature.contains(m.as_str()))
    })
}
