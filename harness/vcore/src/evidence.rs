//! Evidence files (/verif/evidence/<id>.json, schema /root/.vp/EVIDENCE.schema.json) and the
//! result records worker processes hand back to the coordinating process.

use std::collections::{BTreeMap, BTreeSet};

use serde::{Deserialize, Serialize};
use serde_json::{json, Value};

#[derive(Debug, Clone, Serialize, Deserialize, Default)]
pub struct Violation {
    pub property: String,
    /// Oracle clause that failed, e.g. `W.usage-eq`.
    pub clause: String,
    /// Stable attribution (call site / pattern) used for known-findings matching.
    pub signature: String,
    pub message: String,
    /// Everything needed to re-run exactly this execution: engine, config, program, choices.
    pub witness: Value,
}

#[derive(Debug, Clone, Serialize, Deserialize, Default)]
pub struct ShardResult {
    /// Summed across shards.
    pub counters: BTreeMap<String, u64>,
    /// Maximum across shards.
    pub maxima: BTreeMap<String, u64>,
    /// Distinct observation / state fingerprints (union across shards).
    pub fingerprints: BTreeSet<u64>,
    /// More fingerprints existed than were kept (memory cap).
    pub fingerprints_truncated: bool,
    pub violations: Vec<Violation>,
    pub samples: Vec<Value>,
    /// Some cap (wall, executions) cut the search short.
    pub capped: bool,
    pub notes: BTreeSet<String>,
}

impl ShardResult {
    pub fn add(&mut self, k: &str, v: u64) {
        *self.counters.entry(k.to_string()).or_insert(0) += v;
    }
    pub fn max(&mut self, k: &str, v: u64) {
        let e = self.maxima.entry(k.to_string()).or_insert(0);
        if v > *e {
            *e = v;
        }
    }
    pub fn get(&self, k: &str) -> u64 {
        self.counters.get(k).copied().unwrap_or(0)
    }
    pub fn fp(&mut self, f: u64) {
        if self.fingerprints.len() < 4_000_000 {
            self.fingerprints.insert(f);
        } else if !self.fingerprints.contains(&f) {
            self.fingerprints_truncated = true;
        }
    }
    pub fn sample(&mut self, v: Value, cap: usize) {
        if self.samples.len() < cap {
            self.samples.push(v);
        }
    }
    pub fn merge(&mut self, o: ShardResult) {
        for (k, v) in o.counters {
            *self.counters.entry(k).or_insert(0) += v;
        }
        for (k, v) in o.maxima {
            let e = self.maxima.entry(k).or_insert(0);
            if v > *e {
                *e = v;
            }
        }
        self.fingerprints.extend(o.fingerprints);
        self.fingerprints_truncated |= o.fingerprints_truncated;
        self.violations.extend(o.violations);
        for s in o.samples {
            if self.samples.len() < 12 {
                self.samples.push(s);
            }
        }
        self.capped |= o.capped;
        self.notes.extend(o.notes);
    }
}

pub struct EvidenceSpec<'a> {
    pub property: &'a str,
    pub tier: &'a str,
    pub seed: i64,
    /// `model_checking` or `fault_enumeration`.
    pub level: &'a str,
    pub rule: String,
    pub assumptions: Vec<String>,
    pub wall_s: f64,
    pub violations: usize,
    pub known_findings: Vec<String>,
    pub bounds: Value,
}

/// Build the evidence JSON from a merged result. `states` = distinct fingerprints,
/// `transitions` = counter `steps`, `traces_validated_against_impl` = counter `executions`
/// (every explored trace is an execution of the implementation).
pub fn build(spec: &EvidenceSpec<'_>, r: &ShardResult) -> Value {
    let executions = r.get("executions");
    let steps = r.get("steps").max(1);
    let states = (r.fingerprints.len() as u64).max(1);
    let coverage = json!({
        "states": states,
        "transitions": steps,
        "traces_validated_against_impl": executions,
        "evaluations": executions.max(1),
        // Measured: the number of distinct final observations / canonical states seen by this run.
        "distinct_nontrivial": r.fingerprints.len() as u64,
        "rule": spec.rule,
        "samples": if r.samples.is_empty() { vec![json!("no sample recorded")] } else { r.samples.clone() },
        "exhaustive": !r.capped,
        "bounds": spec.bounds,
        "counters": r.counters,
        "maxima": r.maxima,
        "fingerprints_truncated": r.fingerprints_truncated,
        "notes": r.notes,
        "known_findings_reported": spec.known_findings,
    });
    json!({
        "property_id": spec.property,
        "tier": spec.tier,
        "seed": spec.seed,
        "level": spec.level,
        "coverage": coverage,
        "assumptions": spec.assumptions,
        "wall_s": spec.wall_s,
        "violations": spec.violations,
    })
}

pub fn write(path: &std::path::Path, v: &Value) -> std::io::Result<()> {
    if let Some(p) = path.parent() {
        std::fs::create_dir_all(p)?;
    }
    let tmp = path.with_extension("json.tmp");
    std::fs::write(&tmp, serde_json::to_vec_pretty(v).unwrap())?;
    std::fs::rename(tmp, path)
}
