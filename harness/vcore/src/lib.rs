//! Explorer core shared by all engines: deviation-bounded stateless search over choice points,
//! replay files, evidence files, known-findings matching. See DESIGN.md §2.1 and §7.

pub mod evidence;
pub mod explore;
pub mod findings;
pub mod par;

pub use explore::{explore, Ctx, ExploreLimits, ExploreStats, PointRec};

/// Deterministic 64-bit fingerprint (SipHash with fixed keys) of anything hashable.
pub fn fingerprint<T: std::hash::Hash>(t: &T) -> u64 {
    use std::hash::Hasher;
    #[allow(deprecated)]
    let mut h = std::hash::SipHasher::new_with_keys(0x5eed_f00d, 0xc0ff_ee11);
    t.hash(&mut h);
    h.finish()
}

pub fn fingerprint_str(s: &str) -> u64 {
    fingerprint(&s)
}

/// Exit code for machinery failures (never a verdict).
pub const EXIT_MACHINERY: i32 = 2;
