//! Device images: capture the partition files of a world, install an image into a fresh directory,
//! reopen the real cache on it and read keys back. Shared by C03, C04, C07, C09, C10.

use std::path::Path;

use crate::hyb::*;

/// Content of every partition file, in partition-id order.
#[derive(Debug, Clone, PartialEq, Eq, Hash)]
pub struct Image {
    pub parts: Vec<Vec<u8>>,
}

pub fn part_name(id: usize) -> String {
    format!("foyer-storage-direct-fs-{id:08}")
}

pub fn capture(dir: &Path) -> Image {
    let mut parts = vec![];
    for id in 0.. {
        match std::fs::read(dir.join(part_name(id))) {
            Ok(b) => parts.push(b),
            Err(_) => break,
        }
    }
    Image { parts }
}

pub fn install(dir: &Path, img: &Image) {
    let _ = std::fs::remove_dir_all(dir);
    std::fs::create_dir_all(dir).expect("create image dir");
    for (id, p) in img.parts.iter().enumerate() {
        std::fs::write(dir.join(part_name(id)), p).expect("write partition");
    }
}

impl Image {
    /// Index of the first block partition (partition 0 is the tombstone log when it is enabled).
    pub fn first_block(tombstone: bool) -> usize {
        usize::from(tombstone)
    }

    pub fn zeroed_like(&self) -> Image {
        Image {
            parts: self.parts.iter().map(|p| vec![0u8; p.len()]).collect(),
        }
    }

    pub fn pages(&self) -> usize {
        self.parts.iter().map(|p| p.len() / 4096).sum()
    }
}

/// Outcome of reopening an image and reading `keys`.
pub struct Reopened {
    pub world: World,
    pub open_error: Option<String>,
}

/// Open the real cache on `img` (installed into the world's own scratch directory) with IO
/// auto-completing, and look every key up once.
pub fn reopen_and_read(cfg: &HybCfg, img: &Image, keys: &[u64], kind: &'static str) -> Reopened {
    tokio::sim::reset();
    let mut w = World::new(cfg.clone());
    install(&w.dir, img);
    match w.open() {
        Ok(()) => {
            w.read_all(keys, kind);
            Reopened {
                world: w,
                open_error: None,
            }
        }
        Err(e) => Reopened {
            world: w,
            open_error: Some(e),
        },
    }
}
