//! Engine S properties: C05 (accounting), C13 (leave/offer conservation), C14 (victim choice),
//! C18 (handles). Each is the same lock-step driver with its own alphabet, configurations and
//! owned oracle clauses.

use std::time::{Duration, Instant};

use serde_json::{json, Value};
use vcore::evidence::{ShardResult, Violation};

use crate::{
    framework::{Prop, Tier},
    memdrive::{MemCfg, Op},
    memmodel::Algo,
    seq::{self, SeqJob},
};

pub struct MemProp {
    pub id: &'static str,
    pub owned: Vec<&'static str>,
    pub jobs: fn(Tier) -> Vec<SeqJob>,
    pub rule: &'static str,
    pub assumptions: Vec<&'static str>,
    pub need_evictions: bool,
}

fn ins(k: u64, w: usize) -> Op {
    Op::Ins {
        k,
        w,
        low: false,
        reject: false,
        hold: false,
    }
}
fn ins_hold(k: u64, w: usize) -> Op {
    Op::Ins {
        k,
        w,
        low: false,
        reject: false,
        hold: true,
    }
}
fn ins_low(k: u64, w: usize) -> Op {
    Op::Ins {
        k,
        w,
        low: true,
        reject: false,
        hold: false,
    }
}
fn ins_reject(k: u64, w: usize, hold: bool) -> Op {
    Op::Ins {
        k,
        w,
        low: false,
        reject: true,
        hold,
    }
}
fn get(k: u64) -> Op {
    Op::Get { k, hold: false }
}
fn get_hold(k: u64) -> Op {
    Op::Get { k, hold: true }
}
fn rm(k: u64) -> Op {
    Op::Rm { k, hold: false }
}
fn rm_hold(k: u64) -> Op {
    Op::Rm { k, hold: true }
}

fn cfg(algo: Algo, capacity: usize, shards: usize, pipe: bool, predict: bool) -> MemCfg {
    MemCfg {
        algo,
        capacity,
        shards,
        hash_table: vec![],
        pipe,
        predict,
        no_listener: false,
    }
}

/// Initial states: empty; filled to capacity with unit entries; filled with a looked-up handle held;
/// after a clear; after a resize.
fn prologues(capacity: usize, keys: &[u64]) -> Vec<Vec<Op>> {
    let fill: Vec<Op> = keys.iter().cycle().take(capacity.min(keys.len())).map(|k| ins(*k, 1)).collect();
    let mut v = vec![vec![], fill.clone()];
    if capacity > 0 {
        let mut held = fill.clone();
        held.push(get_hold(keys[0]));
        v.push(held);
        let mut cleared = fill.clone();
        cleared.push(Op::Clear);
        v.push(cleared);
        let mut resized = fill;
        resized.push(Op::Resize { c: capacity.saturating_sub(1).max(1) });
        v.push(resized);
    }
    v
}

// ---------------------------------------------------------------------------------------------
// C05
// ---------------------------------------------------------------------------------------------

fn c05_alphabet(capacity: usize) -> Vec<Op> {
    let big = (capacity + 1).min(31);
    vec![
        ins(1, 1),
        ins(2, 1),
        ins(3, 1),
        ins(1, 2),
        ins(2, 2),
        ins(4, 0),
        ins(3, big),
        ins(2, capacity.min(31)),
        ins_hold(1, 1),
        get_hold(1),
        get(2),
        Op::Touch { k: 1 },
        Op::DropH { slot: 0 },
        rm(1),
        rm(2),
        Op::Clear,
        Op::Resize { c: 1 },
        Op::Resize { c: capacity + 1 },
        Op::EvictAll,
        Op::Fetch { k: 2, w: 1, hold: false },
        Op::Fetch { k: 3, w: 2, hold: false },
        // filter-rejected (disk-only) inserts over keys that may be resident with another weight
        ins_reject(1, 2, false),
        ins_reject(2, 1, false),
    ]
}

fn c05_jobs(tier: Tier) -> Vec<SeqJob> {
    let mut jobs = vec![];
    let (caps, shard_counts, d1, d2): (Vec<usize>, Vec<usize>, usize, usize) = match tier {
        Tier::Quick => (vec![0, 1, 2, 3, 4], vec![1, 2, 4], 3, 5),
        Tier::Thorough => (vec![0, 1, 2, 3, 4], vec![1, 2, 3, 4], 4, 9),
    };
    for algo in Algo::defaults() {
        for &capacity in caps.iter() {
            for &shards in shard_counts.iter() {
                let universe = vec![1, 2, 3, 4];
                let pros = if tier == Tier::Quick {
                    vec![vec![]]
                } else {
                    prologues(capacity, &universe)
                };
                for (pi, prologue) in pros.into_iter().enumerate() {
                    jobs.push(SeqJob {
                        property: "C05",
                        owned: vec!["W.", "X."],
                        cfg: cfg(algo, capacity, shards, false, false),
                        universe: universe.clone(),
                        prologue,
                        alphabet: c05_alphabet(capacity),
                        // Non-initial states get the deduplicated search only.
                        depth1: if pi == 0 { d1 } else { 2 },
                        depth2: if shards <= 2 { d2 } else { d2.min(5) },
                        max_states: 20_000,
                        resize_any_depth: 99,
                        resize_last_depth: 99,
                        resize2_depth: 99,
                        epilogue: true,
                    });
                }
            }
        }
    }
    jobs
}

// ---------------------------------------------------------------------------------------------
// C13
// ---------------------------------------------------------------------------------------------

fn c13_alphabet(capacity: usize) -> Vec<Op> {
    vec![
        ins(1, 1),
        ins(2, 1),
        ins(3, 1),
        ins(1, 2),
        ins_hold(2, 1),
        ins_reject(1, 1, false),
        ins_reject(3, 1, true),
        get_hold(1),
        get(2),
        Op::DropH { slot: 0 },
        Op::DropH { slot: 1 },
        rm(1),
        rm_hold(2),
        Op::Clear,
        Op::Resize { c: 1 },
        Op::Resize { c: capacity + 1 },
        Op::EvictAll,
        Op::Flush,
        Op::FlushCancel,
        Op::Fetch { k: 1, w: 1, hold: false },
        Op::Fetch { k: 3, w: 1, hold: true },
    ]
}

fn c13_jobs(tier: Tier) -> Vec<SeqJob> {
    let mut jobs = vec![];
    let (caps, shard_counts, d1, d2): (Vec<usize>, Vec<usize>, usize, usize) = match tier {
        Tier::Quick => (vec![1, 2, 3], vec![1, 2], 3, 5),
        Tier::Thorough => (vec![1, 2, 3, 4], vec![1, 2, 3, 4], 4, 8),
    };
    for algo in Algo::defaults() {
        for &capacity in caps.iter() {
            for &shards in shard_counts.iter() {
                for pipe in [true, false] {
                    if !pipe && tier == Tier::Quick && shards > 1 {
                        continue;
                    }
                    jobs.push(SeqJob {
                        property: "C13",
                        owned: vec!["L.", "X."],
                        cfg: cfg(algo, capacity, shards, pipe, false),
                        universe: vec![1, 2, 3],
                        prologue: vec![],
                        alphabet: c13_alphabet(capacity),
                        depth1: d1,
                        depth2: if shards <= 2 { d2 } else { d2.min(5) },
                        max_states: 20_000,
                        resize_any_depth: 99,
                        resize_last_depth: 99,
                        resize2_depth: 99,
                        epilogue: true,
                    });
                }
                // Pipe without an event listener (another code path in resize / clear / insert): differential
                // against the same sequences with a listener, pass 1 only.
                let mut c = cfg(algo, capacity, shards, true, false);
                c.no_listener = true;
                jobs.push(SeqJob {
                    property: "C13",
                    owned: vec!["L.", "X."],
                    cfg: c,
                    universe: vec![1, 2, 3],
                    prologue: vec![],
                    // (the driver chooses the origin value of a fetch from its ledger, which has no events to
                    // follow here: fetches are left to the jobs with a listener)
                    alphabet: c13_alphabet(capacity).into_iter().filter(|o| !matches!(o, Op::Fetch { .. })).collect(),
                    depth1: d1,
                    depth2: 0,
                    max_states: 0,
                    resize_any_depth: 99,
                    resize_last_depth: 99,
                    resize2_depth: 0,
                    epilogue: true,
                });
            }
        }
    }
    jobs
}

// ---------------------------------------------------------------------------------------------
// C14
// ---------------------------------------------------------------------------------------------

fn c14_algos(tier: Tier) -> Vec<Algo> {
    let mut v = vec![Algo::Fifo, Algo::Sieve];
    let lru: &[f64] = if tier == Tier::Quick { &[0.5, 0.9] } else { &[0.0, 0.5, 0.9, 1.0] };
    for r in lru {
        v.push(Algo::Lru { ratio: *r });
    }
    let s3: Vec<(f64, f64, u8)> = if tier == Tier::Quick {
        vec![(0.1, 1.0, 1), (0.5, 1.0, 2)]
    } else {
        vec![(0.1, 1.0, 1), (0.5, 1.0, 1), (0.5, 0.0, 1), (0.5, 1.0, 2), (0.1, 1.0, 3), (0.5, 0.5, 3)]
    };
    for (small, ghost, threshold) in s3 {
        v.push(Algo::S3Fifo { small, ghost, threshold });
    }
    let lfu: &[(f64, f64)] = if tier == Tier::Quick {
        &[(0.3, 0.3)]
    } else {
        &[(0.1, 0.8), (0.3, 0.3), (0.5, 0.2)]
    };
    for (window, protected) in lfu {
        v.push(Algo::Lfu {
            window: *window,
            protected: *protected,
        });
    }
    v
}

fn c14_alphabet(capacity: usize) -> Vec<Op> {
    vec![
        ins(1, 1),
        ins(2, 1),
        ins(3, 1),
        ins(4, 1),
        ins(5, 2),
        ins(1, 3),
        ins_low(2, 1),
        ins_low(6, 1),
        get(1),
        get(2),
        get(3),
        get_hold(1),
        get_hold(4),
        Op::DropH { slot: 0 },
        Op::DropH { slot: 1 },
        rm(2),
        rm(5),
        Op::Resize { c: capacity.saturating_sub(1).max(1) },
        Op::Resize { c: capacity + 2 },
    ]
}

fn c14_jobs(tier: Tier) -> Vec<SeqJob> {
    let mut jobs = vec![];
    let (caps, d1, d2): (Vec<usize>, usize, usize) = match tier {
        Tier::Quick => (vec![2, 3, 4], 3, 5),
        Tier::Thorough => (vec![2, 3, 4, 5, 6], 4, 10),
    };
    for algo in c14_algos(tier) {
        for &capacity in caps.iter() {
            let universe = vec![1, 2, 3, 4, 5, 6];
            let pros = if tier == Tier::Quick {
                vec![vec![], prologues(capacity, &universe)[1].clone()]
            } else {
                prologues(capacity, &universe)
            };
            for (pi, prologue) in pros.into_iter().enumerate() {
                jobs.push(SeqJob {
                    property: "C14",
                    owned: vec!["A.", "P.", "X."],
                    cfg: cfg(algo, capacity, 1, false, true),
                    universe: universe.clone(),
                    prologue,
                    alphabet: c14_alphabet(capacity),
                    depth1: if pi <= 1 { d1 } else { 2 },
                    depth2: d2,
                    max_states: 30_000,
                    resize_any_depth: 99,
                    resize_last_depth: 99,
                    resize2_depth: 99,
                    epilogue: false,
                });
            }
        }
    }
    // w-TinyLFU with a 28-bucket sketch: the sketch ages after a few dozen recorded accesses. Every number of
    // accesses from 20 to 75 is used as a prologue (fill, then look the resident keys up in turn), followed by
    // every sequence over a reduced alphabet: the window-front / probation-front comparison is made on counts
    // before, at and after the first, second and third aging.
    {
        let algo = Algo::LfuSketch { window: 0.34, protected: 0.34, eps: 0.1 };
        let caps: Vec<usize> = if tier == Tier::Quick { vec![3] } else { vec![3, 4] };
        for capacity in caps {
            let universe = vec![1, 2, 3, 4, 5, 6];
            for accesses in 20..=75usize {
                let mut prologue: Vec<Op> = (1..=capacity as u64).map(|k| ins(k, 1)).collect();
                for i in 0..accesses {
                    // key 1 is looked up twice as often as the others: estimates differ between the queues
                    let k = if i % 3 == 0 { 1 } else { (i % capacity) as u64 + 1 };
                    prologue.push(get(k));
                }
                jobs.push(SeqJob {
                    property: "C14",
                    owned: vec!["A.", "P.", "X."],
                    cfg: cfg(algo, capacity, 1, false, true),
                    universe: universe.clone(),
                    prologue,
                    alphabet: vec![ins(4, 1), ins(5, 1), ins(6, 1), get(1), get(2), get(4)],
                    depth1: if tier == Tier::Quick { 3 } else { 4 },
                    depth2: 0,
                    max_states: 0,
                    resize_any_depth: 0,
                    resize_last_depth: 0,
                    resize2_depth: 0,
                    epilogue: false,
                });
            }
        }
    }
    // S3-FIFO configured with a promotion threshold above what the 2-bit frequency counter can reach (the
    // implementation caps it at the counter's maximum of 3): entries looked up three times must still be promoted.
    {
        let algo = Algo::S3Fifo { small: 0.5, ghost: 1.0, threshold: 5 };
        let caps: Vec<usize> = if tier == Tier::Quick { vec![4] } else { vec![3, 4, 6] };
        for capacity in caps {
            let universe = vec![1, 2, 3, 4, 5, 6];
            let mut prologue: Vec<Op> = (1..=capacity as u64).map(|k| ins(k, 1)).collect();
            for _ in 0..3 {
                prologue.push(get(1));
                prologue.push(get(2));
            }
            prologue.push(get(3));
            jobs.push(SeqJob {
                property: "C14",
                owned: vec!["A.", "P.", "X."],
                cfg: cfg(algo, capacity, 1, false, true),
                universe: universe.clone(),
                prologue,
                alphabet: vec![ins(5, 1), ins(6, 1), ins(4, 1), ins(3, 1), get(1), get(3), get(5), rm(2)],
                depth1: if tier == Tier::Quick { 4 } else { 5 },
                depth2: 0,
                max_states: 0,
                resize_any_depth: 0,
                resize_last_depth: 0,
                resize2_depth: 0,
                epilogue: false,
            });
        }
    }
    // States reached *through* a resize (capacity-derived parameters of LRU / S3-FIFO / w-TinyLFU are
    // recomputed there): the cache is filled, resized down or up, and then every sequence over a reduced
    // alphabet follows. One resize per execution (see the budget note on `SeqJob`).
    let post_caps: Vec<usize> = if tier == Tier::Quick { vec![4] } else { vec![3, 4, 6] };
    for algo in c14_algos(tier) {
        if matches!(algo, Algo::Fifo | Algo::Sieve) {
            continue;
        }
        for &capacity in post_caps.iter() {
            let universe = vec![1, 2, 3, 4, 5, 6];
            for target in [capacity - 1, capacity + 2] {
                let mut prologue = prologues(capacity, &universe)[1].clone();
                prologue.push(Op::Resize { c: target });
                jobs.push(SeqJob {
                    property: "C14",
                    owned: vec!["A.", "P.", "X."],
                    cfg: cfg(algo, capacity, 1, false, true),
                    universe: universe.clone(),
                    prologue,
                    alphabet: vec![ins(1, 1), ins(3, 1), ins(4, 1), ins(5, 2), ins_low(6, 1), ins_low(2, 1), get(2), get(3), rm(2)],
                    depth1: if tier == Tier::Quick { 3 } else { 4 },
                    depth2: 0,
                    max_states: 0,
                    resize_any_depth: 0,
                    resize_last_depth: 0,
                    resize2_depth: 0,
                    epilogue: false,
                });
            }
        }
    }
    jobs
}

// ---------------------------------------------------------------------------------------------
// C18
// ---------------------------------------------------------------------------------------------

fn c18_alphabet(capacity: usize) -> Vec<Op> {
    vec![
        ins(1, 1),
        ins(2, 1),
        ins(3, 1),
        ins(4, 1),
        ins(1, 2),
        ins_hold(1, 1),
        ins_hold(2, 1),
        get_hold(1),
        get_hold(2),
        get(1),
        Op::Touch { k: 1 },
        Op::Touch { k: 2 },
        Op::CloneH { slot: 0 },
        Op::DropH { slot: 0 },
        Op::DropH { slot: 1 },
        Op::DropH { slot: 2 },
        rm(1),
        rm_hold(2),
        Op::Clear,
        Op::Resize { c: 1 },
        Op::Resize { c: capacity + 1 },
        Op::Fetch { k: 1, w: 1, hold: true },
        Op::Fetch { k: 3, w: 1, hold: false },
        Op::FetchWaiterGone { k: 3, w: 1, hold: false },
        Op::FetchWaiterGone { k: 1, w: 1, hold: true },
    ]
}

fn c18_jobs(tier: Tier) -> Vec<SeqJob> {
    let mut jobs = vec![];
    let (caps, shard_counts, d1, d2): (Vec<usize>, Vec<usize>, usize, usize) = match tier {
        Tier::Quick => (vec![1, 2, 3], vec![1, 2], 3, 5),
        Tier::Thorough => (vec![1, 2, 3, 4], vec![1, 2, 3], 4, 8),
    };
    let mut algos = Algo::defaults();
    algos.push(Algo::Lru { ratio: 0.5 });
    for algo in algos {
        for &capacity in caps.iter() {
            for &shards in shard_counts.iter() {
                let universe = vec![1, 2, 3, 4];
                let pros = if tier == Tier::Quick {
                    vec![vec![]]
                } else {
                    prologues(capacity, &universe)
                };
                for (pi, prologue) in pros.into_iter().enumerate() {
                    jobs.push(SeqJob {
                        property: "C18",
                        owned: vec!["H.", "P.", "R.", "X."],
                        cfg: cfg(algo, capacity, shards, false, false),
                        universe: universe.clone(),
                        prologue,
                        alphabet: c18_alphabet(capacity),
                        depth1: if pi == 0 { d1 } else { 2 },
                        depth2: if shards == 1 { d2 } else { d2.min(5) },
                        max_states: 20_000,
                        resize_any_depth: 99,
                        resize_last_depth: 99,
                        resize2_depth: 99,
                        epilogue: true,
                    });
                }
            }
        }
    }
    jobs
}

// ---------------------------------------------------------------------------------------------

/// C17, memory part: the C05/C18 driver under a hasher that maps keys 1 and 2 to the same 64-bit hash
/// (key 3: same shard, different hash).
fn c17_jobs(tier: Tier) -> Vec<SeqJob> {
    let mut jobs = vec![];
    let (d1, d2) = if tier == Tier::Quick { (3, 5) } else { (4, 8) };
    let alphabet = vec![
        ins(1, 1),
        ins(2, 1),
        ins(3, 1),
        ins(2, 2),
        ins_hold(1, 1),
        get_hold(1),
        get_hold(2),
        get(1),
        get(2),
        Op::Touch { k: 2 },
        Op::DropH { slot: 0 },
        rm(1),
        rm(2),
        Op::Contains { k: 2 },
        Op::Clear,
    ];
    for algo in Algo::defaults() {
        for (capacity, shards) in [(2usize, 1usize), (4, 1), (4, 2)] {
            let mut c = cfg(algo, capacity, shards, true, false);
            // hash(1) == hash(2) == 6; hash(3) == 8: all three share the shard for 1 and 2 shards
            c.hash_table = vec![0, 6, 6, 8];
            jobs.push(SeqJob {
                property: "C17",
                owned: vec!["R.", "W.findable", "H.", "X."],
                cfg: c,
                universe: vec![1, 2, 3],
                prologue: vec![],
                alphabet: alphabet.clone(),
                depth1: d1,
                depth2: d2,
                max_states: 20_000,
                resize_any_depth: 0,
                resize_last_depth: 0,
                resize2_depth: 0,
                epilogue: true,
            });
        }
    }
    jobs
}

pub fn c17_mem() -> MemProp {
    MemProp {
        id: "C17",
        owned: vec!["R.", "W.findable", "H.", "X."],
        jobs: c17_jobs,
        rule: "Engine S (memory part of C17): every sequence over {insert k1, k2 (two weights), k3, insert-and-hold, get / get-and-hold of k1 and k2, touch, drop, remove k1 / k2, contains, clear} up to the pass-1 depth plus deduplicated breadth-first search, five algorithms, under a user hasher with hash(k1) == hash(k2) (k3 shares only the shard); the ledger requires that lookups, removes and contains of one key never see the other key's entry and that both can be resident at once.",
        assumptions: vec!["single caller thread"],
        need_evictions: false,
    }
}

pub fn props() -> Vec<MemProp> {
    vec![
        MemProp {
            id: "C05",
            owned: vec!["W.", "X."],
            jobs: c05_jobs,
            rule: "Engine S: every operation sequence over the C05 alphabet (insert with weights 0,1,2,cap,cap+1, get-and-hold, touch, drop, remove, clear, resize, evict_all) up to the pass-1 depth from the listed initial states, then breadth-first search deduplicated on the reference ledger's full state; for each capacity 0..4 x shard count x algorithm. A case is distinct if its final observable state (pass 1) or canonical reference state (pass 2) differs. After every step the real cache's usage()/entries()/contains() are compared with a weight ledger that follows the victims the implementation reports and checks each eviction was necessary and the loop stopped as soon as possible.",
            assumptions: vec![
                "single caller thread (interleavings are C02's business)",
                "keys are u64 under an identity hasher so key % shards selects the shard",
                "victim choice itself is not judged here (C14)",
            ],
            need_evictions: true,
        },
        MemProp {
            id: "C13",
            owned: vec!["L.", "X."],
            jobs: c13_jobs,
            rule: "Engine S: every operation sequence over the C13 alphabet (insert, replace, disk-only insert, remove, get/hold/drop, clear, resize, evict_all, flush, cache drop) up to the pass-1 depth, then deduplicated breadth-first search; five algorithms x shards x capacity, with a recording Pipe and listener. Oracle: every admitted entry leaves exactly once with the reason of what the driver did, never while a lookup still finds it; entries leaving by Evict are offered to the pipe exactly once (through send, or through flush for flush()), others never; disk-only entries are offered exactly once at their last drop.",
            assumptions: vec![
                "single caller thread",
                "listener notifications of disk-only (never findable) entries are not constrained, only their pipe offer is",
                "cross-shard notification order is unconstrained (resize uses helper threads): compared per shard",
            ],
            need_evictions: true,
        },
        MemProp {
            id: "C14",
            owned: vec!["A.", "P.", "X."],
            jobs: c14_jobs,
            rule: "Engine S, single shard: every operation sequence over the C14 alphabet (insert with weights 1,2,3 and hints, get, hold/release, remove, resize) up to the pass-1 depth from empty and pre-filled states, then deduplicated breadth-first search on the reference algorithm's complete state; FIFO, SIEVE, LRU with 2-4 pool ratios, S3-FIFO with 2-6 (small, ghost, threshold) settings, w-TinyLFU with 1-3 (window, protected) settings, capacities 2..6. Oracle: the victim sequence reported by the implementation equals, eviction by eviction, that of an independent re-implementation of the documented algorithm (VecDeque based); under LRU a looked-up, still-held entry is never a victim.",
            assumptions: vec![
                "w-TinyLFU reference uses the same datasketches count-min sketch with the same parameters: estimates are identical by construction, their use is what is checked",
                "S3-FIFO ghost-queue duplicate handling and SIEVE hand reset on removal follow the implementation (neither documentation nor paper settles them)",
            ],
            need_evictions: true,
        },
        MemProp {
            id: "C18",
            owned: vec!["H.", "P.", "R.", "X."],
            jobs: c18_jobs,
            rule: "Engine S: every sequence over the C18 alphabet (insert, insert-and-hold, get-and-hold, touch, clone, drop, replace, remove, clear, resize, evicting inserts) up to the pass-1 depth, then deduplicated breadth-first search; five algorithms (+LRU ratio 0.5) x capacity x shards. After every step each held handle must read the same key/value/weight, report refs() equal to the number of live handles, and is_outdated() must equal 'a lookup would not return this record'; under LRU no looked-up-and-held entry may be evicted; at the end all handles are dropped and one fresh insert per shard must bring the shard within capacity.",
            assumptions: vec!["single caller thread (the thread-level part of C18 is explored by Engine T under C02/C18-T)"],
            need_evictions: true,
        },
    ]
}

impl Prop for MemProp {
    fn id(&self) -> &'static str {
        self.id
    }

    fn worker(&self, tier: Tier, shard: (usize, usize), deadline: Instant) -> ShardResult {
        let mut res = ShardResult::default();
        let jobs = (self.jobs)(tier);
        let mut counter = 0u64;
        res.add("jobs_total", if shard.0 == 0 { jobs.len() as u64 } else { 0 });
        for (ji, job) in jobs.iter().enumerate() {
            if Instant::now() >= deadline {
                res.capped = true;
                res.notes.insert("wall cap reached before all jobs were explored".into());
                break;
            }
            if !seq::pass1(job, shard, &mut counter, &mut res, deadline) {
                break;
            }
            if ji % shard.1 == shard.0 && !seq::pass2(job, &mut res, deadline) {
                break;
            }
        }
        res
    }

    fn replay(&self, witness: &Value, verbose: bool) -> Vec<Violation> {
        let cfg: MemCfg = serde_json::from_value(witness["cfg"].clone()).expect("witness cfg");
        let parse_ops = |v: &Value| -> Vec<Op> {
            v.as_array()
                .map(|a| a.iter().filter_map(|s| s.as_str()).filter_map(Op::parse).collect())
                .unwrap_or_default()
        };
        let job = SeqJob {
            property: self.id,
            owned: self.owned.clone(),
            cfg,
            universe: witness["universe"]
                .as_array()
                .map(|a| a.iter().filter_map(|x| x.as_u64()).collect())
                .unwrap_or_default(),
            prologue: parse_ops(&witness["prologue"]),
            alphabet: vec![],
            depth1: 0,
            depth2: 0,
            max_states: 0,
            resize_any_depth: 99,
            resize_last_depth: 99,
            resize2_depth: 99,
            epilogue: witness["epilogue"].as_bool().unwrap_or(true),
        };
        let ops = parse_ops(&witness["ops"]);
        if verbose {
            println!(
                "replaying {} on {}: prologue [{}] ops [{}]",
                self.id,
                job.cfg.algo.name(),
                crate::memdrive::seq_text(&job.prologue),
                crate::memdrive::seq_text(&ops)
            );
        }
        let mut res = ShardResult::default();
        seq::replay_one(&job, &ops, &mut res);
        res.violations
    }

    fn rule(&self) -> String {
        self.rule.to_string()
    }

    fn assumptions(&self) -> Vec<String> {
        self.assumptions.iter().map(|s| s.to_string()).collect()
    }

    fn bounds(&self, tier: Tier) -> Value {
        let jobs = (self.jobs)(tier);
        let d1 = jobs.iter().map(|j| j.depth1).max().unwrap_or(0);
        let d2 = jobs.iter().map(|j| j.depth2).max().unwrap_or(0);
        let alpha = jobs.iter().map(|j| j.alphabet.len()).max().unwrap_or(0);
        let mut algos: Vec<String> = jobs.iter().map(|j| j.cfg.algo.name()).collect();
        algos.sort();
        algos.dedup();
        json!({"jobs": jobs.len(), "pass1_depth": d1, "pass2_depth": d2, "alphabet_size": alpha, "algorithms": algos})
    }

    fn vacuity(&self, _tier: Tier, r: &ShardResult) -> Vec<String> {
        let mut v = vec![];
        if r.get("executions") == 0 {
            v.push("no execution ran".to_string());
        }
        if r.fingerprints.len() < 2 {
            v.push("fewer than two distinct outcomes".to_string());
        }
        if self.need_evictions && r.get("evictions") == 0 {
            v.push("no eviction ever happened".to_string());
        }
        if r.get("memory_hits") == 0 {
            v.push("no lookup ever hit".to_string());
        }
        v
    }

    fn wall_cap(&self, tier: Tier) -> Duration {
        match tier {
            Tier::Quick => Duration::from_secs(150),
            Tier::Thorough => Duration::from_secs(1200),
        }
    }
}
