//! Engine V properties (hybrid cache under the deterministic runtime and the sim IO engine).

use std::time::{Duration, Instant};

use serde::{Deserialize, Serialize};
use serde_json::{json, Value};
use vcore::{
    evidence::{ShardResult, Violation},
    explore, Ctx, ExploreLimits,
};

use crate::{
    framework::{Prop, Tier},
    hyb::*,
    memmodel::{Algo, Complaint},
    oracle_r,
};

#[derive(Debug, Clone, Serialize, Deserialize)]
pub struct HybJob {
    pub cfg: HybCfg,
    pub prog: Vec<HOp>,
    pub policy: BasePolicy,
    pub opts: RunOpts,
    pub bound: usize,
}

pub type Judge = fn(&HybJob, &RunOut) -> Vec<Complaint>;

pub struct HybProp {
    pub id: &'static str,
    pub owned: Vec<&'static str>,
    pub jobs: fn(Tier) -> Vec<HybJob>,
    pub judge: Judge,
    pub rule: &'static str,
    pub assumptions: Vec<&'static str>,
    pub level: &'static str,
    /// Vacuity: tiers that must have served at least one hit (0 origin, 1 memory, 2 disk).
    pub need_tiers: Vec<u8>,
    pub max_execs_per_job: u64,
}

/// Clauses every hybrid property owns: the explored history did not complete.
pub fn liveness(out: &RunOut) -> Vec<Complaint> {
    let mut v = vec![];
    if let Some(s) = &out.world.stalled {
        v.push(("X.stall", format!("execution did not complete: {s}")));
    }
    for p in out.world.hist.lock().unwrap().panics.iter() {
        v.push(("X.panic", format!("did not complete: {p}")));
    }
    v
}

fn observation_fp(out: &RunOut) -> u64 {
    let h = out.world.hist.lock().unwrap();
    let mut v: Vec<u64> = vec![];
    for l in h.lookups.iter() {
        v.push(l.key);
        match &l.res {
            LookupRes::Miss => v.push(1),
            LookupRes::Hit { ver, source, .. } => {
                v.push(2);
                v.push(*ver);
                v.push(*source as u64);
            }
            LookupRes::Garbage(_) => v.push(3),
            LookupRes::Err(_) => v.push(4),
            LookupRes::Pending => v.push(5),
            LookupRes::Dropped => v.push(6),
        }
    }
    for r in out.world.io.log().iter() {
        v.push(r.part as u64);
        v.push(r.offset);
        v.push(r.len as u64);
        v.push(r.kind as u64);
        v.push(r.completed_at.unwrap_or(0));
    }
    vcore::fingerprint(&v)
}

pub fn run_job(p: &HybProp, job: &HybJob, res: &mut ShardResult, deadline: Instant) -> bool {
    let limits = ExploreLimits {
        bound: job.bound,
        max_execs: p.max_execs_per_job,
        deadline: Some(deadline),
    };
    let mut keep_going = true;
    let stats = explore(
        &limits,
        |ctx: &mut Ctx| run_program(&job.cfg, &job.prog, job.policy, &job.opts, ctx),
        |ctx: &Ctx, out: RunOut| {
            res.add("executions", 1);
            res.add("steps", out.world.steps as u64);
            res.add("io_reorderings", out.world.io_reorders);
            res.add("io_faults_injected", out.world.faults_injected as u64);
            res.add("opens", out.world.opens as u64);
            res.fp(observation_fp(&out));
            {
                let h = out.world.hist.lock().unwrap();
                for l in h.lookups.iter() {
                    match &l.res {
                        LookupRes::Hit { source, .. } => res.add(
                            match source {
                                0 => "hits_origin",
                                1 => "hits_memory",
                                2 => "hits_disk",
                                _ => "hits_other",
                            },
                            1,
                        ),
                        LookupRes::Miss => res.add("misses", 1),
                        _ => {}
                    }
                }
                res.add("leave_events", h.leaves.len() as u64);
            }
            let log = out.world.io.log();
            res.add("io_writes", log.iter().filter(|r| r.kind == crate::simio::IoKind::Write).count() as u64);
            res.add("io_reads", log.iter().filter(|r| r.kind == crate::simio::IoKind::Read).count() as u64);
            let mut complaints = liveness(&out);
            complaints.extend((p.judge)(job, &out));
            let mut stop = false;
            for (clause, msg) in complaints {
                if !p.owned.iter().any(|o| clause.starts_with(o)) {
                    res.add("foreign_clause_complaints", 1);
                    continue;
                }
                let signature = format!(
                    "{clause}|{}{}|{:?}",
                    if job.cfg.woi { "woi" } else { "woe" },
                    if job.cfg.tombstone { "+tomb" } else { "" },
                    job.policy
                );
                if !res.violations.iter().any(|v| v.signature == signature) {
                    res.violations.push(Violation {
                        property: p.id.to_string(),
                        clause: clause.to_string(),
                        signature,
                        message: format!("{msg}  [program: {}; cfg {}; {:?}; {} deviations]", prog_text(&job.prog), job.cfg.name(), job.policy, ctx.deviations()),
                        witness: json!({"engine": "V", "job": job, "choices": ctx.choices()}),
                    });
                }
                stop = true;
            }
            drop(out);
            if stop && res.violations.len() >= 6 {
                keep_going = false;
            }
            // A violation ends the exploration of this job (its siblings would mostly repeat it).
            !stop
        },
    );
    res.add("choice_points", stats.choice_points);
    res.max("max_enabled", stats.max_enabled as u64);
    res.max("max_choice_points", stats.max_points as u64);
    res.max("max_deviations", stats.max_deviations as u64);
    if stats.capped {
        res.capped = true;
        res.notes.insert("a job hit its execution or wall cap".into());
    }
    keep_going
}

impl Prop for HybProp {
    fn id(&self) -> &'static str {
        self.id
    }

    fn level(&self) -> &'static str {
        self.level
    }

    fn worker(&self, tier: Tier, shard: (usize, usize), deadline: Instant) -> ShardResult {
        let mut res = ShardResult::default();
        let jobs = (self.jobs)(tier);
        if shard.0 == 0 {
            res.add("jobs_total", jobs.len() as u64);
        }
        for (i, job) in jobs.iter().enumerate() {
            if i % shard.1 != shard.0 {
                continue;
            }
            if Instant::now() >= deadline {
                res.capped = true;
                res.notes.insert("wall cap reached before all jobs were explored".into());
                break;
            }
            if res.samples.len() < 2 {
                res.sample(
                    json!({"engine": "V", "cfg": job.cfg.name(), "policy": format!("{:?}", job.policy), "program": prog_text(&job.prog), "bound": job.bound}),
                    2,
                );
            }
            res.add("programs", 1);
            if !run_job(self, job, &mut res, deadline) {
                break;
            }
        }
        cleanup_scratch();
        res
    }

    fn replay(&self, witness: &Value, verbose: bool) -> Vec<Violation> {
        let job: HybJob = serde_json::from_value(witness["job"].clone()).expect("witness job");
        let choices: Vec<u32> = serde_json::from_value(witness["choices"].clone()).expect("witness choices");
        let mut ctx = Ctx::new(choices).with_trace(verbose);
        let out = run_program(&job.cfg, &job.prog, job.policy, &job.opts, &mut ctx);
        if let Some(d) = &ctx.diverged {
            eprintln!("MACHINERY: {d}");
            std::process::exit(vcore::EXIT_MACHINERY);
        }
        if verbose {
            println!("replaying {} program [{}] on {} under {:?}", self.id, prog_text(&job.prog), job.cfg.name(), job.policy);
            for l in out.trace.iter() {
                println!("  {l}");
            }
            let h = out.world.hist.lock().unwrap();
            for l in h.lookups.iter() {
                println!("  lookup {}(k{}) t{}..{:?} -> {:?}", l.kind, l.key, l.invoke, l.resp, l.res);
            }
            for w in h.writes.iter() {
                println!("  write k{} v{} {:?} t{}..{:?}", w.key, w.ver, w.kind, w.invoke, w.resp);
            }
            if std::env::var_os("VERIF_DUMP_IO").is_some() {
                for r in out.world.io.log().iter() {
                    let what = match (&r.kind, r.data.as_ref()) {
                        (crate::simio::IoKind::Write, Some(d)) => {
                            if crate::dformat::looks_like_index(d) {
                                format!("index {:?}", crate::dformat::parse_index(d).unwrap().iter().map(|s| (s.hash, s.sequence, s.offset)).collect::<Vec<_>>())
                            } else if d.iter().all(|b| *b == 0) {
                                "zeros".to_string()
                            } else {
                                format!(
                                    "entries {:?}",
                                    crate::dformat::entries_in(d)
                                        .iter()
                                        .map(|e| (e.header.hash, e.header.sequence, e.value.as_ref().map(|v| decode_val(v))))
                                        .collect::<Vec<_>>()
                                )
                            }
                        }
                        _ => String::new(),
                    };
                    println!("  io{} {:?} p{} @{}+{} t{}..{:?} {:?} {}", r.id, r.kind, r.part, r.offset, r.len, r.submitted_at, r.completed_at, r.outcome, what);
                }
            }
        }
        let mut complaints = liveness(&out);
        complaints.extend((self.judge)(&job, &out));
        let mut vs = vec![];
        for (clause, msg) in complaints {
            if !self.owned.iter().any(|o| clause.starts_with(o)) {
                continue;
            }
            let signature = format!(
                "{clause}|{}{}|{:?}",
                if job.cfg.woi { "woi" } else { "woe" },
                if job.cfg.tombstone { "+tomb" } else { "" },
                job.policy
            );
            if !vs.iter().any(|v: &Violation| v.signature == signature) {
                vs.push(Violation {
                    property: self.id.to_string(),
                    clause: clause.to_string(),
                    signature,
                    message: msg,
                    witness: witness.clone(),
                });
            }
        }
        drop(out);
        cleanup_scratch();
        vs
    }

    fn rule(&self) -> String {
        self.rule.to_string()
    }

    fn assumptions(&self) -> Vec<String> {
        let mut v: Vec<String> = self.assumptions.iter().map(|s| s.to_string()).collect();
        v.push("one poll of a task and one completion of a device request are atomic steps; tokio's own scheduler and the kernel are replaced by the explorer (vrt, simio)".into());
        v
    }

    fn bounds(&self, tier: Tier) -> Value {
        let jobs = (self.jobs)(tier);
        let maxlen = jobs.iter().map(|j| j.prog.len()).max().unwrap_or(0);
        let bound = jobs.iter().map(|j| j.bound).max().unwrap_or(0);
        let mut cfgs: Vec<String> = jobs.iter().map(|j| j.cfg.name()).collect();
        cfgs.sort();
        cfgs.dedup();
        json!({"programs": jobs.len(), "max_program_length": maxlen, "deviation_bound": bound, "configurations": cfgs.len(),
               "base_policies": ["Eager", "LazyIo", "ClientFirst"], "max_executions_per_program": self.max_execs_per_job})
    }

    fn vacuity(&self, _tier: Tier, r: &ShardResult) -> Vec<String> {
        let mut v = vec![];
        if r.get("executions") == 0 {
            v.push("no execution ran".into());
        }
        if r.fingerprints.len() < 2 {
            v.push("fewer than two distinct outcomes".into());
        }
        for t in self.need_tiers.iter() {
            let k = match t {
                0 => "hits_origin",
                1 => "hits_memory",
                _ => "hits_disk",
            };
            if r.get(k) == 0 {
                v.push(format!("tier never served a hit: {k}"));
            }
        }
        v
    }

    fn wall_cap(&self, tier: Tier) -> Duration {
        match tier {
            Tier::Quick => Duration::from_secs(150),
            Tier::Thorough => Duration::from_secs(1500),
        }
    }
}

// ---------------------------------------------------------------------------------------------
// Program enumeration helpers
// ---------------------------------------------------------------------------------------------

/// All sequences over `alphabet` (each symbol may expand to several operations) of length 1..=len.
pub fn sequences(alphabet: &[Vec<HOp>], len: usize) -> Vec<Vec<HOp>> {
    let mut out = vec![];
    let mut cur: Vec<Vec<usize>> = vec![vec![]];
    for _ in 0..len {
        let mut next = vec![];
        for s in cur.iter() {
            for i in 0..alphabet.len() {
                let mut n = s.clone();
                n.push(i);
                next.push(n);
            }
        }
        for s in next.iter() {
            out.push(s.iter().flat_map(|i| alphabet[*i].clone()).collect());
        }
        cur = next;
    }
    out
}

fn has_write(p: &[HOp]) -> bool {
    p.iter()
        .any(|o| matches!(o, HOp::Ins { .. } | HOp::SwIns { .. } | HOp::Gof { .. } | HOp::GofHeld { .. }))
}

// ---------------------------------------------------------------------------------------------
// C01
// ---------------------------------------------------------------------------------------------

fn c01_judge(job: &HybJob, out: &RunOut) -> Vec<Complaint> {
    let h = out.world.hist.lock().unwrap();
    oracle_r::check(&h, &job.cfg)
}

fn c01_alphabet(cfg: &HybCfg, tier: Tier) -> Vec<Vec<HOp>> {
    let big = cfg.max_entry_size() + 100;
    let mut a = vec![
        vec![HOp::Ins { k: 1, sz: 100, loc: Loc::Default }],
        vec![HOp::Ins { k: 1, sz: 5000, loc: Loc::Default }],
        vec![HOp::Ins { k: 1, sz: big, loc: Loc::Default }],
        vec![HOp::Rm { k: 1 }],
        vec![HOp::Get { k: 1 }],
        vec![HOp::Gof { k: 1, sz: 100 }],
        vec![HOp::Fill { n: 2 }],
        vec![HOp::Wait],
        vec![HOp::Close, HOp::Reopen],
        vec![HOp::Clear],
    ];
    if tier == Tier::Thorough {
        a.push(vec![HOp::Ins { k: 2, sz: 100, loc: Loc::Default }]);
        a.push(vec![HOp::Get { k: 2 }]);
        a.push(vec![HOp::SwIns { k: 1, sz: 100 }]);
        a.push(vec![HOp::Ins { k: 1, sz: 100, loc: Loc::OnDisk }]);
    }
    a
}

fn c01_jobs(tier: Tier) -> Vec<HybJob> {
    let mut jobs = vec![];
    let mut cfgs = vec![];
    for woi in [true, false] {
        for tomb in [false, true] {
            cfgs.push(HybCfg::small(woi, tomb));
        }
    }
    if tier == Tier::Thorough {
        for algo in Algo::defaults().into_iter().skip(1) {
            let mut c = HybCfg::small(true, true);
            c.mem_algo = algo;
            cfgs.push(c.clone());
            c.woi = false;
            cfgs.push(c);
        }
        for comp in [1u8, 2] {
            let mut c = HybCfg::small(false, true);
            c.compression = comp;
            cfgs.push(c.clone());
            c.woi = true;
            cfgs.push(c);
        }
        let mut c = HybCfg::small(true, false);
        c.flushers = 2;
        cfgs.push(c);
    }
    // A size-based admission filter: small values are admitted, 2-page values are refused by the disk tier (a
    // refused update must invalidate the older copy wherever that copy is: on disk or still in the write queue).
    for woi in [true, false] {
        let mut c = HybCfg::small(woi, true);
        c.admission = crate::hyb::Admission::UpTo(1000);
        cfgs.push(c);
    }
    // foyer's own PsyncIoEngine instead of the sim IO engine: device reads and writes happen inside
    // spawn_blocking tasks, which the explorer orders like every other task.
    for woi in [true, false] {
        let mut c = HybCfg::small(woi, true);
        c.psync = true;
        cfgs.push(c);
    }
    let opts = RunOpts {
        final_reads: true,
        final_restart: false,
        universe: vec![1, 2],
        ..Default::default()
    };
    use BasePolicy::*;
    // (program length, base policy, deviation bound)
    let plan: Vec<(usize, BasePolicy, usize)> = match tier {
        Tier::Quick => vec![(3, LazyIo, 1), (3, Eager, 0), (3, Alternate, 0), (4, LazyIo, 0), (4, Alternate, 0)],
        Tier::Thorough => vec![
            (3, LazyIo, 2),
            (3, Eager, 1),
            (3, ClientFirst, 1),
            (3, Alternate, 2),
            (4, LazyIo, 1),
            (4, Alternate, 1),
            (4, Eager, 0),
        ],
    };
    for (ci, cfg) in cfgs.iter().enumerate() {
        // the four base configurations and the size-filtered ones get the full plan (programs of 4 calls)
        let base_cfg = ci < 4 || matches!(cfg.admission, crate::hyb::Admission::UpTo(_));
        let alpha = c01_alphabet(cfg, if base_cfg { tier } else { Tier::Quick });
        for (len, policy, bound) in plan.iter() {
            if !base_cfg && *len > 3 {
                continue;
            }
            let all = sequences(&alpha, *len);
            for prog in all {
                // Shorter programs are covered by the length-3 plans.
                let symbols = prog.iter().filter(|o| !matches!(o, HOp::Reopen)).count();
                if *len == 4 && symbols < 4 {
                    continue;
                }
                if !has_write(&prog) {
                    continue;
                }
                let mut o = opts.clone();
                // Restart at the end of programs that did not restart themselves.
                o.final_restart = !prog.iter().any(|x| matches!(x, HOp::Reopen));
                jobs.push(HybJob {
                    cfg: cfg.clone(),
                    prog,
                    policy: *policy,
                    opts: o,
                    bound: if base_cfg { *bound } else { (*bound).min(1) },
                });
            }
        }
    }
    // Directed programs (both tiers): histories the quick alphabet does not spell (a second key after
    // clear(); a get_or_fetch caller that polls late) under all four base schedules, bound 2.
    let ins = |k: u64, sz: usize| HOp::Ins { k, sz, loc: Loc::Default };
    let directed: Vec<Vec<HOp>> = vec![
        vec![ins(1, 100), HOp::Clear, ins(2, 100)],
        vec![ins(1, 100), HOp::Wait, HOp::Clear, ins(2, 100), HOp::Wait],
        vec![HOp::Gof { k: 1, sz: 100 }, ins(1, 5000), ins(1, 100)],
        vec![HOp::Gof { k: 1, sz: 100 }, ins(1, 100), HOp::Rm { k: 1 }],
        vec![HOp::Gof { k: 1, sz: 100 }, ins(1, 100), HOp::Fill { n: 2 }, HOp::Get { k: 1 }],
    ];
    for cfg in cfgs.iter().take(4) {
        for prog in directed.iter() {
            for policy in [Eager, LazyIo, ClientFirst, Alternate] {
                let mut o = opts.clone();
                o.final_restart = true;
                jobs.push(HybJob { cfg: cfg.clone(), prog: prog.clone(), policy, opts: o, bound: 2 });
            }
        }
    }
    jobs
}

/// C16, hybrid tier: the value destructor, the event listener, the weighter and the admission filter of
/// the hybrid cache probe the lock facade (`hyb::lock_probe`) in every execution.
fn c16_judge(_: &HybJob, out: &RunOut) -> Vec<Complaint> {
    let h = out.world.hist.lock().unwrap();
    h.lock_held
        .iter()
        .map(|t| {
            let clause = if t.starts_with("ValueDrop") {
                "K.lock-held:ValueDrop(hybrid)"
            } else if t.starts_with("Listener") {
                "K.lock-held:Listener(hybrid)"
            } else if t.starts_with("Weighter") {
                "K.lock-held:Weighter(hybrid)"
            } else {
                "K.lock-held:AdmissionFilter(hybrid)"
            };
            (clause, t.clone())
        })
        .collect()
}

fn c16_jobs(tier: Tier) -> Vec<HybJob> {
    let mut jobs = vec![];
    let cfgs: Vec<HybCfg> = match tier {
        Tier::Quick => vec![HybCfg::small(true, true), HybCfg::small(false, true)],
        Tier::Thorough => {
            let mut v = vec![];
            for woi in [true, false] {
                for tomb in [false, true] {
                    v.push(HybCfg::small(woi, tomb));
                }
            }
            let mut c = HybCfg::small(true, true);
            c.flushers = 2;
            v.push(c);
            v
        }
    };
    let opts = RunOpts {
        final_reads: true,
        final_restart: true,
        universe: vec![1, 2],
        ..Default::default()
    };
    use BasePolicy::*;
    let plan: Vec<(BasePolicy, usize)> = match tier {
        Tier::Quick => vec![(LazyIo, 0), (Eager, 0), (Alternate, 0)],
        Tier::Thorough => vec![(LazyIo, 1), (Eager, 1), (Alternate, 1), (ClientFirst, 0)],
    };
    for cfg in cfgs.iter() {
        let alpha = c01_alphabet(cfg, Tier::Quick);
        for prog in sequences(&alpha, 3) {
            if !has_write(&prog) {
                continue;
            }
            for (policy, bound) in plan.iter() {
                let mut o = opts.clone();
                o.final_restart = !prog.iter().any(|x| matches!(x, HOp::Reopen));
                jobs.push(HybJob { cfg: cfg.clone(), prog: prog.clone(), policy: *policy, opts: o, bound: *bound });
            }
        }
    }
    // The same monitor over C17's histories: two keys with one 64-bit hash share their slots in the write-queue
    // index and the disk index, where a record can end up owned (and dropped) by the index itself.
    jobs.extend(crate::props_hyb2::c17_jobs(tier));
    jobs
}

pub fn c16_hyb() -> HybProp {
    HybProp {
        id: "C16",
        owned: vec!["K.", "X."],
        jobs: c16_jobs,
        judge: c16_judge,
        rule: "Engine V with the lock facade as monitor: every program of up to 3 client calls over {insert small / 2-page / oversize, remove, get, get_or_fetch, fill (evict memory), wait, close+reopen, clear} on a real HybridCache (write-on-insertion and write-on-eviction, tombstone log on; thorough: + log off, 2 flushers) under the base schedules and deviation bounds given in the bounds; the value type's destructor, the event listener, the weighter and the admission filter check plshim::held_by_this_thread() == 0 at every invocation (memory tier, in-flight table, write-queue index, block index, flusher and reclaimer paths all go through the facade). Oracle: no callback runs while the calling thread holds a cache lock; every execution completes (no stall / self-deadlock panic).",
        assumptions: vec!["keys are u64 (no key destructor in the hybrid harness; key destructors are probed on the memory tier by Engine S)", "std::sync::RwLock of the block manager is not part of the facade"],
        level: "model_checking",
        need_tiers: vec![1, 2],
        max_execs_per_job: 5_000,
    }
}

pub fn props() -> Vec<HybProp> {
    vec![HybProp {
        id: "C01",
        owned: vec!["R.", "X."],
        jobs: c01_jobs,
        judge: c01_judge,
        rule: "Engine V: every program of up to 3 client calls over {insert small / 2-page / oversize, remove, get, get_or_fetch, fill (evict memory), wait, close+reopen, clear} (+ second key, storage-writer insert, on-disk insert in the thorough tier) on a real HybridCache over a real FsDevice directory, for both write policies x tombstone log on/off (+ all memory algorithms, zstd/lz4, 2 flushers in the thorough tier); each program is executed under base schedules (Eager, LazyIo, Alternate; ClientFirst in the thorough tier and for a handful of directed longer programs) and every schedule within the deviation bound of the base schedule is explored (which ready task is polled next, which pending device IO completes next, when the next client call is issued). Values carry (key, version); every lookup during the program, after quiescence and after a graceful restart is judged by the version-register oracle R. A case is distinct if its lookup results or its device IO trace differ.",
        assumptions: vec![
            "write shedding limits are far above the workload (none may trigger)",
            "placement advice of a key never alternates between in-memory-only and disk",
            "removes are required to be durable across restart only with the tombstone log",
        ],
        level: "model_checking",
        need_tiers: vec![1, 2],
        max_execs_per_job: 20_000,
    }]
}
