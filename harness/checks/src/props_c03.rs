//! C03 — corrupted or misdirected disk bytes never surface as a cached value (enumerator F).
//!
//! Base images come from real workloads run through Engine V (entries of 1..3 pages, overwrites,
//! deletes, optionally a wrapped device so that stale generations exist). For every page of every
//! partition file (including the tombstone log) a menu of single-page faults is applied; each
//! faulted image is reopened with the real builder in quiet mode and fully read.

use std::{
    collections::{BTreeMap, BTreeSet},
    time::{Duration, Instant},
};

use serde::{Deserialize, Serialize};
use serde_json::{json, Value};
use vcore::evidence::{ShardResult, Violation};

use crate::{
    disk::{self, Image},
    framework::{Prop, Tier},
    hyb::*,
    simio::{IoKind, IoOutcome, PAGE},
};

#[derive(Debug, Clone, Serialize, Deserialize)]
pub struct BaseSpec {
    pub compression: u8,
    pub tombstone: bool,
    pub wrapped: bool,
}

#[derive(Debug, Clone, Serialize, Deserialize, PartialEq, Eq)]
pub enum Fault {
    Zero { part: usize, page: usize },
    Flip { part: usize, page: usize, bit: usize },
    Swap { part: usize, page: usize, part2: usize, page2: usize },
    /// Replace the page by what it contained `gen` writes earlier.
    Stale { part: usize, page: usize, gen: usize },
    /// Two faults on two different pages (all pairs of page-granular faults: zeroed / stale pages).
    Pair { a: Box<Fault>, b: Box<Fault> },
}

pub struct C03Prop;

/// The base image travels with the witness: after a restart on a full device the block manager picks
/// the block to reclaim in `HashSet` iteration order, so a base image rebuilt in another process may
/// differ in which block is clean. (zstd-compressed, hex encoded.)
fn pack_image(img: &Image) -> Vec<String> {
    img.parts
        .iter()
        .map(|p| {
            let z = zstd::stream::encode_all(&p[..], 3).expect("zstd");
            z.iter().map(|b| format!("{b:02x}")).collect::<String>()
        })
        .collect()
}

fn unpack_image(v: &Value) -> Option<Image> {
    let parts = v.as_array()?;
    let mut out = vec![];
    for p in parts {
        let s = p.as_str()?;
        let bytes: Vec<u8> = (0..s.len() / 2).map(|i| u8::from_str_radix(&s[2 * i..2 * i + 2], 16).unwrap_or(0)).collect();
        out.push(zstd::stream::decode_all(&bytes[..]).ok()?);
    }
    Some(Image { parts: out })
}

struct Base {
    cfg: HybCfg,
    image: Image,
    /// key -> versions ever written (with their sizes: values are reconstructible).
    versions: BTreeMap<u64, BTreeSet<u64>>,
    /// Earlier contents of each (part, page), oldest first.
    generations: BTreeMap<(usize, usize), Vec<Vec<u8>>>,
    keys: Vec<u64>,
}

fn cfg_for(spec: &BaseSpec) -> HybCfg {
    let mut c = HybCfg::small(true, spec.tombstone);
    c.compression = spec.compression;
    c.mem_capacity = 2;
    c.blocks = 8;
    c
}

fn build_base(spec: &BaseSpec) -> Result<Base, String> {
    tokio::sim::reset();
    let cfg = cfg_for(spec);
    let mut w = World::new(cfg.clone());
    w.open()?;
    let sizes = [100usize, 5000, 9000, 300, 4000];
    let mut op = 0;
    let rounds = if spec.wrapped { 5 } else { 1 };
    for round in 0..rounds {
        for k in 1..=6u64 {
            let sz = sizes[((k as usize) + round) % sizes.len()];
            w.issue(op, &HOp::Ins { k, sz, loc: Loc::Default });
            op += 1;
            if k % 2 == 0 {
                w.quiesce();
            }
        }
        w.issue(op, &HOp::Ins { k: 2, sz: 200, loc: Loc::Default });
        op += 1;
        w.issue(op, &HOp::Rm { k: 5 });
        op += 1;
        w.issue(op, &HOp::Wait);
        op += 1;
        w.quiesce();
    }
    w.graceful_restart();
    w.drop_cache();
    let image = disk::capture(&w.dir);
    let mut versions: BTreeMap<u64, BTreeSet<u64>> = BTreeMap::new();
    for wr in w.hist.lock().unwrap().writes.iter() {
        if matches!(wr.kind, WKind::Insert { .. }) {
            versions.entry(wr.key).or_default().insert(wr.ver);
        }
    }
    let mut generations: BTreeMap<(usize, usize), Vec<Vec<u8>>> = BTreeMap::new();
    for r in w.io.log().iter() {
        if r.kind != IoKind::Write || r.outcome != IoOutcome::Done {
            continue;
        }
        let data = r.data.as_ref().unwrap();
        for (i, chunk) in data.chunks(PAGE).enumerate() {
            let page = r.offset as usize / PAGE + i;
            generations.entry((r.part as usize, page)).or_default().push(chunk.to_vec());
        }
    }
    // The last generation is the current content; keep only the earlier ones that differ from it.
    for ((part, page), gens) in generations.iter_mut() {
        let cur = image.parts[*part][*page * PAGE..(*page + 1) * PAGE].to_vec();
        gens.retain(|g| *g != cur);
        gens.dedup();
    }
    generations.retain(|_, g| !g.is_empty());
    let panics = w.hist.lock().unwrap().panics.clone();
    if !panics.is_empty() {
        return Err(format!("base workload panicked: {panics:?}"));
    }
    Ok(Base {
        cfg,
        image,
        versions,
        generations,
        keys: (1..=6).collect(),
    })
}

fn faults_for(base: &Base, tier: Tier) -> Vec<Fault> {
    let mut v = vec![];
    let img = &base.image;
    let mut all_pages = vec![];
    for (part, bytes) in img.parts.iter().enumerate() {
        for page in 0..bytes.len() / PAGE {
            all_pages.push((part, page));
        }
    }
    let nonzero = |part: usize, page: usize| img.parts[part][page * PAGE..(page + 1) * PAGE].iter().any(|b| *b != 0);
    for &(part, page) in all_pages.iter() {
        let live = nonzero(part, page);
        if live {
            v.push(Fault::Zero { part, page });
        }
        // Every bit of the first 64 bytes (all header / index-slot fields), then one bit per 64-byte stride.
        let head_bits = if live { (if tier == Tier::Quick { 64 } else { 160 }) * 8 } else { 16 };
        for bit in 0..head_bits {
            v.push(Fault::Flip { part, page, bit });
        }
        if live {
            let stride = if tier == Tier::Quick { 256 } else { 1 };
            let mut byte = if tier == Tier::Quick { 64 } else { 160 };
            while byte < PAGE {
                v.push(Fault::Flip { part, page, bit: byte * 8 + (byte / stride.max(1)) % 8 });
                byte += stride;
            }
        }
        for &(part2, page2) in all_pages.iter() {
            if (part2, page2) <= (part, page) {
                continue;
            }
            if !live && !nonzero(part2, page2) {
                continue;
            }
            v.push(Fault::Swap { part, page, part2, page2 });
        }
        if let Some(g) = base.generations.get(&(part, page)) {
            for gen in 0..g.len() {
                v.push(Fault::Stale { part, page, gen });
            }
        }
    }
    // Double faults, exhaustively over the page-granular menu: every pair of {zeroed live page, stale
    // generation} on two different pages (quick: zeroed pages only).
    let coarse: Vec<Fault> = v
        .iter()
        .filter(|f| match f {
            Fault::Zero { .. } => true,
            Fault::Stale { .. } => tier == Tier::Thorough,
            _ => false,
        })
        .cloned()
        .collect();
    let at = |f: &Fault| match f {
        Fault::Zero { part, page } | Fault::Stale { part, page, .. } => (*part, *page),
        _ => (usize::MAX, usize::MAX),
    };
    for (i, a) in coarse.iter().enumerate() {
        for b in coarse.iter().skip(i + 1) {
            if at(a) != at(b) {
                v.push(Fault::Pair { a: Box::new(a.clone()), b: Box::new(b.clone()) });
            }
        }
    }
    v
}

fn apply_fault(base: &Base, f: &Fault) -> Image {
    let mut img = base.image.clone();
    apply_to(base, &mut img, f);
    img
}

fn apply_to(base: &Base, img: &mut Image, f: &Fault) {
    if let Fault::Pair { a, b } = f {
        apply_to(base, img, a);
        apply_to(base, img, b);
        return;
    }
    match *f {
        Fault::Zero { part, page } => img.parts[part][page * PAGE..(page + 1) * PAGE].fill(0),
        Fault::Flip { part, page, bit } => img.parts[part][page * PAGE + bit / 8] ^= 1 << (bit % 8),
        Fault::Swap { part, page, part2, page2 } => {
            let a = img.parts[part][page * PAGE..(page + 1) * PAGE].to_vec();
            let b = img.parts[part2][page2 * PAGE..(page2 + 1) * PAGE].to_vec();
            img.parts[part][page * PAGE..(page + 1) * PAGE].copy_from_slice(&b);
            img.parts[part2][page2 * PAGE..(page2 + 1) * PAGE].copy_from_slice(&a);
        }
        Fault::Stale { part, page, gen } => {
            let g = &base.generations[&(part, page)][gen];
            img.parts[part][page * PAGE..page * PAGE + g.len()].copy_from_slice(g);
        }
        Fault::Pair { .. } => unreachable!(),
    }
}

/// Reopen the faulted image and read everything; returns complaints.
fn evaluate(base: &Base, img: &Image, res: &mut ShardResult) -> Vec<(String, String)> {
    let mut out = vec![];
    let mut r = disk::reopen_and_read(&base.cfg, img, &base.keys, "after-fault");
    res.add("recoveries", 1);
    if let Some(e) = &r.open_error {
        if e.contains("panicked") || e.contains("stalled") {
            out.push(("G.open-panicked".into(), format!("reopening in quiet mode did not complete: {e}")));
        } else {
            // An error return is not a panic; the property allows it.
            res.add("open_errors", 1);
        }
        return out;
    }
    {
        let h = r.world.hist.lock().unwrap();
        if std::env::var_os("VERIF_DUMP_IO").is_some() {
            for l in h.lookups.iter() {
                println!("  lookup k{} -> {:?}", l.key, l.res);
            }
            for io in r.world.io.log().iter() {
                println!("  io{} {:?} p{} @{}+{}", io.id, io.kind, io.part, io.offset, io.len);
            }
        }
        for p in h.panics.iter() {
            out.push(("G.panicked".into(), format!("a lookup or recovery task panicked: {p}")));
        }
        for l in h.lookups.iter() {
            match &l.res {
                LookupRes::Miss => res.add("reads_miss", 1),
                LookupRes::Err(_) => res.add("reads_error", 1),
                LookupRes::Hit { key, ver, .. } => {
                    res.add("reads_hit", 1);
                    let ok = *key == l.key && base.versions.get(key).map(|s| s.contains(ver)).unwrap_or(false);
                    if !ok {
                        out.push((
                            "G.foreign".into(),
                            format!("key {} reads (key {key}, v{ver}) which was never stored for it", l.key),
                        ));
                    }
                }
                LookupRes::Garbage(g) => out.push(("G.garbage".into(), format!("key {} reads bytes that were never stored: {g}", l.key))),
                LookupRes::Pending | LookupRes::Dropped => out.push(("G.hang".into(), format!("the read of key {} never returned", l.key))),
            }
        }
    }
    if !out.is_empty() {
        return out;
    }
    // The cache must still work: a fresh insert is readable from disk afterwards.
    let w = &mut r.world;
    w.issue(1, &HOp::Ins { k: 9, sz: 3000, loc: Loc::Default });
    w.issue(2, &HOp::Wait);
    w.quiesce();
    w.issue(3, &HOp::EvictAll);
    let before = w.hist.lock().unwrap().lookups.len();
    w.read_all(&[9], "post-fault-insert");
    let h = w.hist.lock().unwrap();
    for p in h.panics.iter() {
        out.push(("G.panicked".into(), format!("after the fault, insert/wait/get panicked: {p}")));
    }
    match h.lookups.get(before).map(|l| &l.res) {
        Some(LookupRes::Hit { key: 9, .. }) => res.add("post_fault_roundtrips", 1),
        Some(LookupRes::Miss) | Some(LookupRes::Err(_)) => res.add("post_fault_misses", 1),
        other => out.push(("G.post-fault".into(), format!("after the fault a freshly inserted key reads {:?}", other))),
    }
    if let Some(s) = &w.stalled {
        out.push(("G.hang".into(), s.clone()));
    }
    out
}

fn specs(tier: Tier) -> Vec<BaseSpec> {
    match tier {
        Tier::Quick => vec![
            BaseSpec { compression: 0, tombstone: true, wrapped: false },
            BaseSpec { compression: 1, tombstone: true, wrapped: true },
        ],
        Tier::Thorough => {
            let mut v = vec![];
            for compression in [0u8, 1, 2] {
                for tombstone in [true, false] {
                    for wrapped in [false, true] {
                        v.push(BaseSpec { compression, tombstone, wrapped });
                    }
                }
            }
            v
        }
    }
}

fn sig(clause: &str, spec: &BaseSpec, f: &Fault) -> String {
    let kind = match f {
        Fault::Zero { .. } => "zero",
        Fault::Flip { .. } => "flip",
        Fault::Swap { .. } => "swap",
        Fault::Stale { .. } => "stale",
        Fault::Pair { .. } => "pair",
    };
    fn part_of(f: &Fault) -> usize {
        match f {
            Fault::Zero { part, .. } | Fault::Flip { part, .. } | Fault::Swap { part, .. } | Fault::Stale { part, .. } => *part,
            Fault::Pair { a, .. } => part_of(a),
        }
    }
    let part0 = part_of(f);
    let region = if spec.tombstone && part0 == 0 { "tombstone-log" } else { "block" };
    format!("{clause}|{kind}|{region}")
}

impl Prop for C03Prop {
    fn id(&self) -> &'static str {
        "C03"
    }

    fn level(&self) -> &'static str {
        "fault_enumeration"
    }

    fn worker(&self, tier: Tier, shard: (usize, usize), deadline: Instant) -> ShardResult {
        let mut res = ShardResult::default();
        let mut counter = 0usize;
        for spec in specs(tier) {
            let base = match build_base(&spec) {
                Ok(b) => b,
                Err(e) => {
                    res.notes.insert(format!("base image could not be built: {e}"));
                    res.capped = true;
                    continue;
                }
            };
            if shard.0 == 0 {
                res.add("base_images", 1);
                res.add("base_pages", base.image.pages() as u64);
            }
            // Sanity: the unfaulted image reads back at least something.
            let faults = faults_for(&base, tier);
            if shard.0 == 0 {
                res.add("faults_total", faults.len() as u64);
            }
            let packed = pack_image(&base.image);
            for f in faults.iter() {
                let mine = counter % shard.1 == shard.0;
                counter += 1;
                if !mine {
                    continue;
                }
                if Instant::now() >= deadline {
                    res.capped = true;
                    res.notes.insert("wall cap reached before all faults were applied".into());
                    cleanup_scratch();
                    return res;
                }
                let img = apply_fault(&base, f);
                if img == base.image {
                    res.add("noop_faults", 1);
                    continue;
                }
                res.add("executions", 1);
                res.add("steps", 1);
                res.fp(vcore::fingerprint(&img));
                if res.samples.len() < 3 {
                    res.sample(json!({"enumerator": "F", "base": spec, "fault": f}), 3);
                }
                // If reopening / reading this image kills the process (abort, failed allocation from a
                // garbage length, stack overflow), that is a verdict about foyer: journal it first.
                vcore::par::journal(&Violation {
                    property: "C03".into(),
                    clause: "G.abort".into(),
                    signature: sig("G.abort", &spec, f),
                    message: format!("the process died (abort / failed allocation) while reopening or reading the faulted image  [base image {:?}, fault {:?}]", spec, f),
                    witness: json!({"enumerator": "F", "base": spec, "fault": f, "base_image": packed}),
                });
                let c = evaluate(&base, &img, &mut res);
                vcore::par::journal_clear();
                for (clause, msg) in c {
                    let signature = sig(&clause, &spec, f);
                    if !res.violations.iter().any(|v| v.signature == signature) {
                        res.violations.push(Violation {
                            property: "C03".into(),
                            clause: clause.clone(),
                            signature,
                            message: format!("{msg}  [base image {:?}, fault {:?}]", spec, f),
                            witness: json!({"enumerator": "F", "base": spec, "fault": f, "base_image": packed}),
                        });
                    }
                }
                if res.violations.len() >= 6 {
                    cleanup_scratch();
                    return res;
                }
            }
        }
        cleanup_scratch();
        res
    }

    fn replay(&self, witness: &Value, verbose: bool) -> Vec<Violation> {
        let spec: BaseSpec = serde_json::from_value(witness["base"].clone()).expect("witness base");
        let f: Fault = serde_json::from_value(witness["fault"].clone()).expect("witness fault");
        let mut base = build_base(&spec).expect("base image");
        if let Some(img) = unpack_image(&witness["base_image"]) {
            base.image = img;
        }
        let img = apply_fault(&base, &f);
        if verbose {
            println!("replaying C03 fault {:?} on base {:?}", f, spec);
            if std::env::var_os("VERIF_DUMP_IO").is_some() {
                for (pi, p) in base.image.parts.iter().enumerate() {
                    for (pg, chunk) in p.chunks(4096).enumerate() {
                        println!("  base part {pi} page {pg} fp {:016x}", vcore::fingerprint(&chunk));
                    }
                }
            }
        }
        let mut res = ShardResult::default();
        let mut vs = vec![];
        for (clause, msg) in evaluate(&base, &img, &mut res) {
            let signature = sig(&clause, &spec, &f);
            if !vs.iter().any(|v: &Violation| v.signature == signature) {
                vs.push(Violation {
                    property: "C03".into(),
                    clause,
                    signature,
                    message: msg,
                    witness: witness.clone(),
                });
            }
        }
        cleanup_scratch();
        vs
    }

    fn rule(&self) -> String {
        "Enumerator F: base images are produced by a fixed real workload through Engine V (6 keys, entries of 1-3 pages, an overwrite, a delete, wait; 'wrapped' = five rounds so that blocks were reclaimed and rewritten) for compression none/zstd/lz4 x tombstone log on/off x fresh/wrapped (quick: 2 of the 12). For EVERY page of EVERY partition file including the tombstone log: zero it; flip every bit of its first 64 (quick) / 160 (thorough) bytes and one bit per 256-byte stride (quick) / one bit of every byte (thorough) of the rest; swap it with every other page of every file; replace it by each older generation the IO log recorded for that page. Every faulted image is reopened with the real builder (quiet recovery) and every key is read through HybridCache::get; then a fresh insert + wait + evict + get must still work. Oracle: every read is a miss, an error, or bit-for-bit a value that was at some time stored for that key (values carry key, version and a deterministic payload); nothing panics or hangs. distinct = distinct faulted image bytes.".into()
    }

    fn assumptions(&self) -> Vec<String> {
        vec![
            "single-page faults only (pairs are not enumerated in this tier)".into(),
            "payloads that collide under xxhash64 are outside the alphabet".into(),
            "faulted images are evaluated in the worker process under catch_unwind; an abort (e.g. allocation failure) would surface as a machinery failure of that shard, not as a verdict".into(),
        ]
    }

    fn bounds(&self, tier: Tier) -> Value {
        json!({"base_images": specs(tier).len(), "fault_kinds": ["zero", "bit flip", "page swap within/across files", "older generation of the same page"]})
    }

    fn vacuity(&self, _tier: Tier, r: &ShardResult) -> Vec<String> {
        let mut v = vec![];
        if r.get("recoveries") == 0 {
            v.push("no faulted image was reopened".into());
        }
        if r.get("reads_hit") == 0 || r.get("reads_miss") == 0 {
            v.push("reads never hit or never missed: faults had no visible effect".into());
        }
        if r.fingerprints.len() < 2 {
            v.push("fewer than two distinct faulted images".into());
        }
        v
    }

    fn wall_cap(&self, tier: Tier) -> Duration {
        match tier {
            Tier::Quick => Duration::from_secs(150),
            Tier::Thorough => Duration::from_secs(1500),
        }
    }
}
