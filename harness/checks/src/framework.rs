//! Coordinator / worker plumbing shared by all properties.

use std::{
    path::{Path, PathBuf},
    time::{Duration, Instant},
};

use serde_json::{json, Value};
use vcore::{
    evidence::{self, EvidenceSpec, ShardResult, Violation},
    findings, par, EXIT_MACHINERY,
};

#[derive(Debug, Clone, Copy, PartialEq, Eq)]
pub enum Tier {
    Quick,
    Thorough,
}

impl Tier {
    pub fn name(&self) -> &'static str {
        match self {
            Tier::Quick => "quick",
            Tier::Thorough => "thorough",
        }
    }
}

pub trait Prop: Sync {
    fn id(&self) -> &'static str;
    /// `model_checking` or `fault_enumeration`.
    fn level(&self) -> &'static str {
        "model_checking"
    }
    /// Explore the work items of shard `i` of `n`.
    fn worker(&self, tier: Tier, shard: (usize, usize), deadline: Instant) -> ShardResult;
    /// Re-run exactly the execution described by `witness`; return the violations it shows.
    fn replay(&self, witness: &Value, verbose: bool) -> Vec<Violation>;
    fn rule(&self) -> String;
    fn assumptions(&self) -> Vec<String>;
    fn bounds(&self, tier: Tier) -> Value;
    /// Vacuity guards: reasons why this run proves nothing (machinery failure).
    fn vacuity(&self, tier: Tier, r: &ShardResult) -> Vec<String>;
    fn wall_cap(&self, tier: Tier) -> Duration {
        match tier {
            Tier::Quick => Duration::from_secs(150),
            Tier::Thorough => Duration::from_secs(1500),
        }
    }
    /// Shards to use (processes).
    fn shards(&self, _tier: Tier) -> usize {
        std::thread::available_parallelism().map(|n| n.get()).unwrap_or(8).min(16)
    }
}

pub fn verif_root() -> PathBuf {
    std::env::var_os("VERIF_ROOT").map(PathBuf::from).unwrap_or_else(|| PathBuf::from("/verif"))
}

fn usage() -> ! {
    eprintln!("usage: check <PROPERTY> [--tier quick|thorough] [--replay <file>] [--jobs N]");
    std::process::exit(EXIT_MACHINERY);
}

pub fn main_entry() {
    let args: Vec<String> = std::env::args().skip(1).collect();
    if args.is_empty() {
        usage();
    }
    let prop_id = args[0].clone();
    let mut tier = match std::env::var("VERIF_TIER").ok().as_deref() {
        Some("thorough") => Tier::Thorough,
        _ => Tier::Quick,
    };
    let mut shard: Option<(usize, usize)> = None;
    let mut shard_out: Option<PathBuf> = None;
    let mut replay: Option<PathBuf> = None;
    let mut jobs: Option<usize> = None;
    let mut wall: Option<u64> = None;
    let mut i = 1;
    while i < args.len() {
        match args[i].as_str() {
            "--tier" => {
                i += 1;
                tier = match args.get(i).map(|s| s.as_str()) {
                    Some("quick") => Tier::Quick,
                    Some("thorough") => Tier::Thorough,
                    _ => usage(),
                };
            }
            "--shard" => {
                i += 1;
                let s = args.get(i).unwrap_or_else(|| usage());
                let (a, b) = s.split_once('/').unwrap_or_else(|| usage());
                shard = Some((a.parse().unwrap(), b.parse().unwrap()));
            }
            "--shard-out" => {
                i += 1;
                shard_out = Some(PathBuf::from(args.get(i).unwrap_or_else(|| usage())));
            }
            "--replay" => {
                i += 1;
                replay = Some(PathBuf::from(args.get(i).unwrap_or_else(|| usage())));
            }
            "--jobs" => {
                i += 1;
                jobs = args.get(i).and_then(|s| s.parse().ok());
            }
            "--wall" => {
                i += 1;
                wall = args.get(i).and_then(|s| s.parse().ok());
            }
            _ => usage(),
        }
        i += 1;
    }
    let props = crate::all_props();
    let Some(prop) = props.iter().find(|p| p.id() == prop_id) else {
        eprintln!("MACHINERY: unknown property {prop_id}");
        std::process::exit(EXIT_MACHINERY);
    };
    let prop: &dyn Prop = prop.as_ref();
    crate::memdrive::install_inline_spawner();

    // Quiet panic output from explored code: panics are caught and turned into verdicts.
    if std::env::var_os("VERIF_PANIC_TRACE").is_none() {
        std::panic::set_hook(Box::new(|_| {}));
    }

    if let Some(path) = replay {
        std::process::exit(replay_file(prop, &path));
    }
    let cap = wall.map(Duration::from_secs).unwrap_or_else(|| prop.wall_cap(tier));
    if let Some(shard) = shard {
        let out = shard_out.unwrap_or_else(|| usage());
        let deadline = Instant::now() + cap;
        par::set_journal_for(&out);
        let r = prop.worker(tier, shard, deadline);
        par::journal_clear();
        par::write_shard_result(&out, &r);
        std::process::exit(0);
    }
    std::process::exit(coordinate(prop, tier, jobs, cap));
}

fn replay_file(prop: &dyn Prop, path: &Path) -> i32 {
    let bytes = std::fs::read(path).unwrap_or_else(|e| {
        eprintln!("MACHINERY: cannot read {}: {e}", path.display());
        std::process::exit(EXIT_MACHINERY);
    });
    let v: Value = serde_json::from_slice(&bytes).unwrap_or_else(|e| {
        eprintln!("MACHINERY: cannot parse {}: {e}", path.display());
        std::process::exit(EXIT_MACHINERY);
    });
    let witness = v.get("witness").cloned().unwrap_or(v.clone());
    let vs = prop.replay(&witness, true);
    if vs.is_empty() {
        println!("REPLAY property={} result=holds replay={}", prop.id(), path.display());
        0
    } else {
        for x in vs.iter() {
            println!("REPLAY property={} clause={} signature={} :: {}", prop.id(), x.clause, x.signature, x.message);
        }
        println!("VIOLATION property={} replay={}", prop.id(), path.display());
        1
    }
}

/// Replay a witness in a fresh process; returns the (sorted) signatures it reproduces.
fn replay_in_child(prop: &dyn Prop, witness_file: &Path) -> Option<Vec<String>> {
    let exe = std::env::current_exe().ok()?;
    let out = std::process::Command::new(exe)
        .arg(prop.id())
        .arg("--replay")
        .arg(witness_file)
        .stdin(std::process::Stdio::null())
        .stderr(std::process::Stdio::null())
        .output()
        .ok()?;
    let text = String::from_utf8_lossy(&out.stdout);
    if out.status.code().is_none() || out.status.code() == Some(101) || out.status.code() == Some(134) {
        // The replay itself died (abort / uncaught panic): reproducible death is what "*.abort" clauses claim.
        return Some(vec!["<died>".to_string()]);
    }
    let mut sigs: Vec<String> = text
        .lines()
        .filter(|l| l.starts_with("REPLAY ") && l.contains("signature="))
        .filter_map(|l| l.split("signature=").nth(1))
        .map(|r| r.split(" :: ").next().unwrap_or("").to_string())
        .collect();
    sigs.sort();
    Some(sigs)
}

fn coordinate(prop: &dyn Prop, tier: Tier, jobs: Option<usize>, cap: Duration) -> i32 {
    let t0 = Instant::now();
    let n = jobs.unwrap_or_else(|| prop.shards(tier)).max(1);
    let args = vec![
        prop.id().to_string(),
        "--tier".to_string(),
        tier.name().to_string(),
        "--wall".to_string(),
        cap.as_secs().to_string(),
    ];
    let outcome = par::run_shards(&args, n, cap + Duration::from_secs(30));
    let mut r = outcome.result;
    if !outcome.machinery_errors.is_empty() {
        for e in outcome.machinery_errors.iter() {
            eprintln!("MACHINERY: {e}");
        }
        return EXIT_MACHINERY;
    }

    // Deduplicate violations by signature (first = found at the smallest depth within its shard).
    let mut uniq: Vec<Violation> = vec![];
    for v in std::mem::take(&mut r.violations) {
        if !uniq.iter().any(|u| u.signature == v.signature) {
            uniq.push(v);
        }
    }
    let root = verif_root();
    let known = findings::load(&root.join("known_findings.json"));
    let replay_dir = root.join("replays").join(prop.id());
    let mut alarm = 0usize;
    let mut known_lines = vec![];
    let mut unstable: Vec<String> = vec![];
    for v in uniq.iter() {
        let digest = format!("{:016x}", vcore::fingerprint_str(&format!("{}{}", v.signature, v.witness)));
        let _ = std::fs::create_dir_all(&replay_dir);
        let path = replay_dir.join(format!("{digest}.json"));
        let doc = json!({"property": v.property, "clause": v.clause, "signature": v.signature,
                         "message": v.message, "witness": v.witness});
        if let Err(e) = evidence::write(&path, &doc) {
            eprintln!("MACHINERY: cannot write replay {}: {e}", path.display());
            return EXIT_MACHINERY;
        }
        // A violation is only reported if it replays identically twice in fresh processes.
        let reproduces = |r: &Option<Vec<String>>| -> bool {
            match r {
                Some(sigs) => sigs.iter().any(|s| *s == v.signature) || (v.clause.ends_with("abort") && *sigs == vec!["<died>".to_string()]),
                None => false,
            }
        };
        let a = replay_in_child(prop, &path);
        let b = replay_in_child(prop, &path);
        let ok = match (reproduces(&a), reproduces(&b)) {
            (true, true) => true,
            (false, false) => false,
            // The implementation itself may be nondeterministic under the fault being shown (e.g. it reads
            // uninitialised padding): a third replay decides by majority.
            _ => {
                let c = replay_in_child(prop, &path);
                eprintln!("note: replays of {} disagree ({:?} vs {:?}); third replay: {:?}", v.signature, a, b, c);
                reproduces(&c)
            }
        };
        match (ok, a, b) {
            (true, _, _) => {}
            (false, a, b) => {
                // Not a verdict. If other violations of this run do replay, they are reported and this one is
                // only noted (an implementation that has been broken may behave nondeterministically, e.g. pick
                // a random block); if nothing replays, the run is a machinery failure.
                unstable.push(format!(
                    "violation {} does not replay deterministically: first {:?}, second {:?} ({})",
                    v.signature,
                    a,
                    b,
                    path.display()
                ));
                continue;
            }
        }
        if let Some(f) = findings::matching(&known, v) {
            // One line per listed finding, however many configurations / schedules exhibit it.
            let line = format!("KNOWN-FINDING: property={} {}", v.property, f.what);
            if !known_lines.contains(&line) {
                println!("{line}");
                known_lines.push(line);
            }
        } else {
            alarm += 1;
            println!("DETAIL property={} clause={} :: {}", v.property, v.clause, v.message);
            println!("VIOLATION property={} replay={}", v.property, path.display());
        }
    }

    if !unstable.is_empty() {
        if alarm == 0 && known_lines.is_empty() {
            for u in unstable.iter() {
                eprintln!("MACHINERY: {u}");
            }
            return EXIT_MACHINERY;
        }
        for u in unstable.iter() {
            eprintln!("note: {u}");
        }
    }
    let vac = prop.vacuity(tier, &r);
    let wall_s = t0.elapsed().as_secs_f64();
    let spec = EvidenceSpec {
        property: prop.id(),
        tier: tier.name(),
        seed: std::env::var("VERIF_SEED").ok().and_then(|s| s.parse().ok()).unwrap_or(0),
        level: prop.level(),
        rule: prop.rule(),
        assumptions: prop.assumptions(),
        wall_s,
        violations: alarm,
        known_findings: known_lines,
        bounds: prop.bounds(tier),
    };
    let ev = evidence::build(&spec, &r);
    let ev_path = root.join("evidence").join(format!("{}.json", prop.id()));
    if let Err(e) = evidence::write(&ev_path, &ev) {
        eprintln!("MACHINERY: cannot write evidence: {e}");
        return EXIT_MACHINERY;
    }
    println!(
        "SUMMARY property={} tier={} executions={} steps={} distinct_states={} violations={} capped={} wall_s={:.1}",
        prop.id(),
        tier.name(),
        r.get("executions"),
        r.get("steps"),
        r.fingerprints.len(),
        alarm,
        r.capped,
        wall_s
    );
    if alarm > 0 {
        return 1;
    }
    if !vac.is_empty() && uniq.is_empty() {
        for v in vac {
            eprintln!("MACHINERY: vacuous run: {v}");
        }
        return EXIT_MACHINERY;
    }
    0
}

/// A property decided by several engines: the parts run one after the other in every shard.
pub struct Composite {
    pub id: &'static str,
    pub parts: Vec<Box<dyn Prop>>,
}

impl Prop for Composite {
    fn id(&self) -> &'static str {
        self.id
    }

    fn level(&self) -> &'static str {
        self.parts[0].level()
    }

    fn worker(&self, tier: Tier, shard: (usize, usize), deadline: Instant) -> ShardResult {
        let mut res = ShardResult::default();
        let n = self.parts.len() as u32;
        let start = Instant::now();
        let total = deadline.saturating_duration_since(start);
        let only: Option<usize> = std::env::var("VERIF_ONLY_PART").ok().and_then(|s| s.parse().ok());
        for (i, p) in self.parts.iter().enumerate() {
            if only.is_some_and(|o| o != i) {
                continue;
            }
            // Each part gets its share of the wall budget (plus what earlier parts left over).
            let part_deadline = start + total / n * (i as u32 + 1);
            par::set_part(Some(i));
            let mut r = p.worker(tier, shard, part_deadline.min(deadline));
            par::set_part(None);
            for v in r.violations.iter_mut() {
                v.witness["part"] = serde_json::json!(i);
            }
            res.merge(r);
        }
        res
    }

    fn replay(&self, witness: &Value, verbose: bool) -> Vec<Violation> {
        let i = witness["part"].as_u64().unwrap_or(0) as usize;
        self.parts[i.min(self.parts.len() - 1)].replay(witness, verbose)
    }

    fn rule(&self) -> String {
        self.parts.iter().map(|p| p.rule()).collect::<Vec<_>>().join("  ||  ")
    }

    fn assumptions(&self) -> Vec<String> {
        let mut v: Vec<String> = self.parts.iter().flat_map(|p| p.assumptions()).collect();
        v.dedup();
        v
    }

    fn bounds(&self, tier: Tier) -> Value {
        Value::Array(self.parts.iter().map(|p| p.bounds(tier)).collect())
    }

    fn vacuity(&self, _tier: Tier, r: &ShardResult) -> Vec<String> {
        let mut v = vec![];
        if r.get("executions") == 0 {
            v.push("no execution ran".to_string());
        }
        if r.fingerprints.len() < 2 {
            v.push("fewer than two distinct outcomes".to_string());
        }
        v
    }

    fn wall_cap(&self, tier: Tier) -> Duration {
        self.parts.iter().map(|p| p.wall_cap(tier)).max().unwrap()
    }
}
