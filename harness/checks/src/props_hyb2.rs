//! Engine V properties, part 2: C06 (fetch coalescing), C11 (insert vs in-flight fetch),
//! C12 (write policy), C15 (graceful close), C17 (hash collisions, hybrid part).

use std::collections::BTreeMap;

use crate::{
    dformat,
    framework::Tier,
    hyb::*,
    memmodel::{Algo, Complaint},
    oracle_r,
    props_hyb::{sequences, HybJob, HybProp},
    simio::{IoKind, IoOutcome},
};

// ---------------------------------------------------------------------------------------------
// Which (key, version) did each device write carry? (oracle D applied to the IO log)
// ---------------------------------------------------------------------------------------------

#[derive(Debug, Clone)]
pub struct WrittenEntry {
    pub io: usize,
    pub submitted_at: u64,
    pub completed: bool,
    pub key: u64,
    pub ver: u64,
    pub part: u32,
}

pub fn written_entries(w: &World) -> Vec<WrittenEntry> {
    let mut out = vec![];
    for r in w.io.log().iter() {
        if r.kind != IoKind::Write {
            continue;
        }
        let Some(data) = r.data.as_ref() else { continue };
        if dformat::looks_like_index(data) {
            continue;
        }
        for e in dformat::entries_in(data) {
            let (Some(key), Some(val)) = (e.key, e.value.as_ref()) else { continue };
            if let Decoded::Ok { key: vk, ver } = decode_val(val) {
                if vk == key {
                    out.push(WrittenEntry {
                        io: r.id,
                        submitted_at: r.submitted_at,
                        completed: r.outcome == IoOutcome::Done,
                        key,
                        ver,
                        part: r.part,
                    });
                }
            }
        }
    }
    out
}

fn is_filler(k: u64) -> bool {
    k >= 1000
}

// ---------------------------------------------------------------------------------------------
// C12 — oracle P
// ---------------------------------------------------------------------------------------------

fn c12_judge(job: &HybJob, out: &RunOut) -> Vec<Complaint> {
    let mut v = vec![];
    let w = &out.world;
    let h = w.hist.lock().unwrap();
    let written = written_entries(w);
    let mut by_kv: BTreeMap<(u64, u64), Vec<&WrittenEntry>> = BTreeMap::new();
    for e in written.iter() {
        by_kv.entry((e.key, e.ver)).or_default().push(e);
    }
    let cfg = &job.cfg;
    let closes: Vec<(u64, u64)> = h
        .calls
        .iter()
        .filter(|c| c.1 == "close")
        .map(|c| (c.2, c.3.unwrap_or(u64::MAX)))
        .collect();
    // Fillers are advised in-memory-only as well.
    for e in written.iter() {
        if is_filler(e.key) {
            v.push((
                "P.inmem-written",
                format!("in-memory-only filler entry k{} reached the device (write io{} at t{})", e.key, e.io, e.submitted_at),
            ));
        }
    }
    for wr in h.writes.iter() {
        let (loc, sz, sw, fetch) = match wr.kind {
            WKind::Insert { loc, sz, storage_writer } => (loc, sz, storage_writer, false),
            WKind::FetchInsert { sz } => (Loc::Default, sz, false, true),
            _ => continue,
        };
        let ws: Vec<&WrittenEntry> = by_kv.get(&(wr.key, wr.ver)).cloned().unwrap_or_default();
        let oversize = sz + 64 > cfg.max_entry_size();
        let closed_before = h.calls.iter().any(|c| c.1 == "close" && c.2 <= wr.invoke && c.0 != usize::MAX);
        let what = if fetch { "origin fetch" } else if sw { "storage-writer insert" } else { "insert" };
        if loc == Loc::InMem {
            if let Some(e) = ws.first() {
                v.push((
                    "P.inmem-written",
                    format!(
                        "k{} v{} was advised in-memory-only but reached the device (write io{} submitted at t{}{})",
                        wr.key,
                        wr.ver,
                        e.io,
                        e.submitted_at,
                        if closes.iter().any(|(a, b)| *a <= e.submitted_at && e.submitted_at <= *b) { ", during close()" } else { "" }
                    ),
                ));
            }
            continue;
        }
        if cfg.admits_nothing() && !sw {
            if let Some(e) = ws.first() {
                v.push(("P.rejected-written", format!("k{} v{} was rejected by the admission filter but written (io{})", wr.key, wr.ver, e.io)));
            }
            continue;
        }
        if loc == Loc::OnDisk {
            if wr.in_memory_after == Some(true) {
                v.push(("P.ondisk-in-memory", format!("k{} v{} was advised on-disk but is retained in memory after the {what}", wr.key, wr.ver)));
            }
        }
        if closed_before || oversize {
            continue;
        }
        // Was a newer version of the key written/removed before this one could be flushed? Then it may
        // legitimately never reach the device (replaced in memory / removed).
        let superseded = h.writes.iter().any(|o| (o.key == wr.key || o.kind == WKind::Clear) && o.invoke > wr.invoke);
        let must_reach_disk = out.completed
            && job.opts.final_reads
            && !superseded
            && (cfg.woi || loc == Loc::OnDisk);
        if must_reach_disk && ws.is_empty() {
            v.push((
                if loc == Loc::OnDisk { "P.ondisk-not-written" } else { "P.woi-not-written" },
                format!(
                    "k{} v{} ({what}{}) never reached the device although {}",
                    wr.key,
                    wr.ver,
                    if loc == Loc::OnDisk { ", advised on-disk" } else { "" },
                    if cfg.woi { "the policy is write-on-insertion" } else { "it is not retained in memory" }
                ),
            ));
        }
        if ws.len() > 1 {
            // Write-on-insertion: one write per admitted insert / origin fetch, nothing on hits or
            // evictions. Write-on-eviction: an on-disk (never resident) entry is handed over once; a
            // resident entry at most once per capacity eviction, and not again after it was loaded
            // back from disk (no block is near reclaim in these configurations).
            let evictions = h.leaves.iter().filter(|l| l.reason == 0 && l.key == wr.key && l.ver == wr.ver).count();
            // Only a load that was answered before the last write of the entry was submitted can have
            // caused that write (final reads come after every write and prove nothing).
            let last_write_at = ws.iter().map(|e| e.submitted_at).max().unwrap_or(0);
            let loaded_from_disk = h.lookups.iter().any(|l| {
                l.key == wr.key
                    && l.resp.map(|r| r <= last_write_at).unwrap_or(false)
                    && matches!(&l.res, LookupRes::Hit { ver, source: 2, .. } if *ver == wr.ver)
            });
            // Callers coalesced into one origin fetch each hand the fetched entry to the disk tier.
            let fetch_callers = h
                .lookups
                .iter()
                .filter(|l| l.key == wr.key && matches!(&l.res, LookupRes::Hit { ver, source: 0, .. } if *ver == wr.ver))
                .count();
            let allowed = (fetch_callers + usize::from(!fetch)).max(1);
            let clause = if cfg.woi && ws.len() <= allowed {
                None
            } else if cfg.woi {
                Some("P.rewritten")
            } else if loc == Loc::OnDisk {
                Some("P.ondisk-rewritten-on-hit")
            } else if ws.len() > evictions + closes.len() {
                Some("P.rewritten")
            } else if loaded_from_disk {
                Some("P.young-rewritten")
            } else {
                None
            };
            if let Some(clause) = clause {
                v.push((
                    clause,
                    format!(
                        "k{} v{} ({what}{}) was written to the device {} times (ios {:?}; {} capacity evictions{}): cache hits and evictions of already stored entries must not write",
                        wr.key,
                        wr.ver,
                        if loc == Loc::OnDisk { ", advised on-disk" } else { "" },
                        ws.len(),
                        ws.iter().map(|e| e.io).collect::<Vec<_>>(),
                        evictions,
                        if loaded_from_disk { ", loaded back from disk in between" } else { "" }
                    ),
                ));
            }
        }
        if !cfg.woi && loc == Loc::Default {
            // Write-on-eviction: a write is legitimate only after the entry left memory by eviction, or
            // while close() flushes.
            for e in ws.iter() {
                let evicted_before = h.leaves.iter().any(|l| l.reason == 0 && l.key == wr.key && l.ver == wr.ver && l.t <= e.submitted_at);
                let during_close = closes.iter().any(|(a, b)| *a <= e.submitted_at && e.submitted_at <= *b);
                if !evicted_before && !during_close {
                    v.push((
                        "P.woe-wrote-resident",
                        format!("write-on-eviction: k{} v{} was written (io{} at t{}) before it was evicted from memory", wr.key, wr.ver, e.io, e.submitted_at),
                    ));
                }
            }
        }
    }
    // The origin runs only after memory missed and the disk lookup missed / was throttled / failed.
    for o in h.origins.iter() {
        if o.first_poll.is_none() {
            continue;
        }
        let Some(l) = h.lookups.iter().find(|l| l.op == o.op && l.kind == "gof") else { continue };
        if let LookupRes::Hit { source, ver, .. } = &l.res {
            if *source == 1 || *source == 2 {
                // The caller was served from a tier; if the origin future was nevertheless polled by this
                // call's own fetch, the fetch ran although a tier had the entry.
                let leader_served = o.ver.map(|ov| ov != *ver).unwrap_or(true);
                if leader_served {
                    v.push((
                        "P.origin-on-hit",
                        format!(
                            "get_or_fetch(k{}) was served v{ver} from {} but its origin future was polled at t{}",
                            l.key,
                            if *source == 1 { "memory" } else { "disk" },
                            o.first_poll.unwrap()
                        ),
                    ));
                }
            }
        }
    }
    if !cfg.flush_on_close && !cfg.woi {
        for (a, b) in closes.iter() {
            for e in written.iter() {
                // Only entries that close() itself handed to the disk tier count: entries that were still
                // resident in memory when close() started (everything else was enqueued earlier and is
                // merely flushed while close() waits).
                let left_before = h.leaves.iter().any(|l| l.key == e.key && l.ver == e.ver && l.t <= *a);
                let ondisk = h.writes.iter().any(|w| w.key == e.key && w.ver == e.ver && matches!(w.kind, WKind::Insert { loc: Loc::OnDisk, .. }));
                if *a <= e.submitted_at && e.submitted_at <= *b && !left_before && !ondisk {
                    v.push((
                        "P.wrote-at-close",
                        format!("flush-on-close is off but k{} v{} was written during close() (io{} at t{})", e.key, e.ver, e.io, e.submitted_at),
                    ));
                }
            }
        }
    }
    v
}

fn c12_jobs(tier: Tier) -> Vec<HybJob> {
    let mut jobs = vec![];
    let alpha: Vec<Vec<HOp>> = vec![
        vec![HOp::Ins { k: 1, sz: 100, loc: Loc::Default }],
        vec![HOp::Ins { k: 2, sz: 100, loc: Loc::InMem }],
        vec![HOp::Ins { k: 3, sz: 100, loc: Loc::OnDisk }],
        vec![HOp::Get { k: 1 }],
        vec![HOp::Gof { k: 1, sz: 100 }],
        vec![HOp::Gof { k: 3, sz: 100 }],
        vec![HOp::Fill { n: 2 }],
        vec![HOp::Close],
    ];
    // thorough: every history of up to 4 calls under every plan, and of exactly 5 calls under Eager (1 deviation)
    // and Alternate (0 deviations)
    let len = if tier == Tier::Quick { 3 } else { 5 };
    use BasePolicy::*;
    let plan: Vec<(BasePolicy, usize)> = match tier {
        Tier::Quick => vec![(Eager, 0), (LazyIo, 1), (Alternate, 0)],
        Tier::Thorough => vec![(Eager, 1), (LazyIo, 1), (Alternate, 1)],
    };
    for woi in [true, false] {
        for foc in [true, false] {
            for admission in [Admission::Admit, Admission::Reject, Admission::ThrottleAll] {
                if admission != Admission::Admit && !foc {
                    continue;
                }
                let mut cfg = HybCfg::small(woi, false);
                cfg.flush_on_close = foc;
                cfg.admission = admission;
                for prog in sequences(&alpha, len) {
                    if !prog.iter().any(|o| matches!(o, HOp::Ins { .. } | HOp::Gof { .. })) {
                        continue;
                    }
                    // Nothing after close is part of the property's histories except close itself.
                    if let Some(p) = prog.iter().position(|o| matches!(o, HOp::Close)) {
                        if p + 1 != prog.len() {
                            continue;
                        }
                    }
                    for (policy, bound) in plan.iter() {
                        if prog.len() == 5 && (*policy == LazyIo) {
                            continue;
                        }
                        let bound = &(if prog.len() == 5 && *policy != Eager { 0 } else { *bound });
                        // From the empty cache, and from a state in which k1 lives on disk only.
                        for on_disk_start in [false, true] {
                            if on_disk_start && (admission != Admission::Admit || !prog.iter().any(|o| matches!(o, HOp::Get { k: 1 } | HOp::Gof { k: 1, .. }))) {
                                continue;
                            }
                            jobs.push(HybJob {
                                cfg: cfg.clone(),
                                prog: prog.clone(),
                                policy: *policy,
                                opts: RunOpts {
                                    final_reads: true,
                                    final_restart: false,
                                    universe: vec![1, 3],
                                    prologue: if on_disk_start {
                                        vec![HOp::Ins { k: 1, sz: 100, loc: Loc::Default }, HOp::Fill { n: 2 }, HOp::Wait]
                                    } else {
                                        vec![]
                                    },
                                    ..Default::default()
                                },
                                bound: *bound,
                            });
                        }
                    }
                }
            }
        }
    }
    jobs
}

// ---------------------------------------------------------------------------------------------
// C15 — graceful close
// ---------------------------------------------------------------------------------------------

fn c15_judge(job: &HybJob, out: &RunOut) -> Vec<Complaint> {
    let mut v = vec![];
    let w = &out.world;
    let h = w.hist.lock().unwrap();
    let cfg = &job.cfg;
    let written = written_entries(w);
    let closes: Vec<(usize, u64, Option<u64>)> = h.calls.iter().filter(|c| c.1 == "close").map(|c| (c.0, c.2, c.3)).collect();
    let first_close = closes.first().map(|c| c.1);
    // Latest completed write per key before the first close.
    let mut latest: BTreeMap<u64, &WriteEv> = BTreeMap::new();
    for wr in h.writes.iter() {
        if is_filler(wr.key) || wr.key == u64::MAX {
            continue;
        }
        if let Some(fc) = first_close {
            if wr.invoke > fc {
                continue;
            }
        }
        latest.insert(wr.key, wr);
    }
    for l in h.lookups.iter().filter(|l| l.epoch > 0 && (l.kind == "after-restart" || l.kind == "final")) {
        let Some(wr) = latest.get(&l.key) else { continue };
        match wr.kind {
            WKind::Insert { loc: Loc::InMem, .. } => {
                if let LookupRes::Hit { ver, .. } = &l.res {
                    if *ver == wr.ver {
                        v.push((
                            "D.inmem-persisted",
                            format!("k{} v{ver} was advised in-memory-only but is retrievable after close + reopen", l.key),
                        ));
                    }
                }
            }
            WKind::Insert { sz, .. } | WKind::FetchInsert { sz } => {
                let oversize = sz + 64 > cfg.max_entry_size();
                // Was the entry resident in memory (or already written) when close() started?
                let left_before_close = h
                    .leaves
                    .iter()
                    .any(|e| e.key == wr.key && e.ver == wr.ver && first_close.map(|fc| e.t <= fc).unwrap_or(false) && e.reason != 0);
                if !cfg.flush_on_close && !cfg.woi {
                    continue;
                }
                if oversize || left_before_close || cfg.admits_nothing() {
                    continue;
                }
                match &l.res {
                    LookupRes::Hit { ver, .. } if *ver == wr.ver => {}
                    other => v.push((
                        "D.lost-on-close",
                        format!(
                            "k{} v{} was in the cache when close() was called (flush-on-close {}) but after reopen the lookup gives {:?}",
                            l.key,
                            wr.ver,
                            if cfg.flush_on_close { "on" } else { "off, write-on-insertion" },
                            other
                        ),
                    )),
                }
            }
            _ => {}
        }
    }
    // flush-on-close off: nothing is written at close.
    if !cfg.flush_on_close && !cfg.woi {
        for (_, a, b) in closes.iter() {
            for e in written.iter() {
                let left_before = h.leaves.iter().any(|l| l.key == e.key && l.ver == e.ver && l.t <= *a);
                if *a <= e.submitted_at && e.submitted_at <= b.unwrap_or(u64::MAX) && !left_before {
                    v.push((
                        "D.wrote-at-close",
                        format!("flush-on-close is off but k{} v{} was written during close()", e.key, e.ver),
                    ));
                }
            }
        }
    }
    // close() is idempotent; writes after close are ignored.
    if closes.len() >= 2 {
        let second = closes[1];
        for e in written.iter() {
            if e.submitted_at >= second.1 && w.opens <= 1 {
                v.push(("D.second-close-wrote", format!("the second close() wrote k{} v{}", e.key, e.ver)));
            }
        }
    }
    if let Some(fc_done) = closes.first().and_then(|c| c.2) {
        for wr in h.writes.iter() {
            if wr.invoke > fc_done && wr.epoch == 0 {
                if written.iter().any(|e| e.key == wr.key && e.ver == wr.ver) {
                    v.push((
                        "D.write-after-close",
                        format!("k{} v{} was inserted after close() returned and still reached the device", wr.key, wr.ver),
                    ));
                }
            }
        }
    }
    // Version-register oracle over the calls made before close(): calls after close() are ignored by
    // the cache and so are they here.
    if !cfg.flush_on_close && !cfg.woi {
        // Without flush-on-close, write-on-eviction loses what was only in memory: an older on-disk
        // version may legitimately be what is left.
        return v;
    }
    let mut before = History::default();
    before.writes = h.writes.iter().filter(|wr| first_close.map(|fc| wr.invoke <= fc).unwrap_or(true)).cloned().collect();
    before.lookups = h.lookups.clone();
    v.extend(oracle_r::check(&before, cfg).into_iter().map(|(c, m)| (if c.starts_with("R.") { "D.stale-after-close" } else { c }, m)));
    v
}

fn c15_jobs(tier: Tier) -> Vec<HybJob> {
    let mut jobs = vec![];
    let alpha: Vec<Vec<HOp>> = vec![
        vec![HOp::Ins { k: 1, sz: 100, loc: Loc::Default }],
        vec![HOp::Ins { k: 1, sz: 5000, loc: Loc::Default }],
        vec![HOp::Ins { k: 2, sz: 100, loc: Loc::InMem }],
        vec![HOp::Ins { k: 3, sz: 100, loc: Loc::Default }],
        vec![HOp::Fill { n: 2 }],
        vec![HOp::Wait],
        vec![HOp::Get { k: 1 }],
    ];
    let len = if tier == Tier::Quick { 3 } else { 4 };
    use BasePolicy::*;
    let plan: Vec<(BasePolicy, usize)> = match tier {
        Tier::Quick => vec![(Eager, 0), (LazyIo, 1), (Alternate, 0)],
        Tier::Thorough => vec![(Eager, 1), (LazyIo, 2), (Alternate, 1), (ClientFirst, 1)],
    };
    let tails: Vec<Vec<HOp>> = vec![
        vec![HOp::Close],
        vec![HOp::Close, HOp::Close],
        vec![HOp::Close, HOp::Ins { k: 1, sz: 100, loc: Loc::Default }],
        // drop without close: the last handle is dropped, the background close must flush
        vec![HOp::Reopen],
    ];
    for woi in [true, false] {
        for foc in [true, false] {
            let mut cfg = HybCfg::small(woi, true);
            cfg.flush_on_close = foc;
            cfg.mem_capacity = 3;
            for body in sequences(&alpha, len) {
                if !body.iter().any(|o| matches!(o, HOp::Ins { .. })) {
                    continue;
                }
                for (ti, tail) in tails.iter().enumerate() {
                    if ti > 0 && body.len() > 2 {
                        continue;
                    }
                    let mut prog = body.clone();
                    prog.extend(tail.iter().copied());
                    let dropped = ti == 3;
                    for (policy, bound) in plan.iter() {
                        jobs.push(HybJob {
                            cfg: cfg.clone(),
                            prog: prog.clone(),
                            policy: *policy,
                            opts: RunOpts {
                                final_reads: dropped,
                                final_restart: !dropped,
                                universe: vec![1, 2, 3],
                                ..Default::default()
                            },
                            bound: *bound,
                        });
                    }
                }
            }
        }
    }
    // Entries the flusher refuses (here: larger than a block) must not eat into the submit queue budget: with
    // a budget of two such entries, two refused entries in the prologue and an idle queue afterwards, what is
    // resident at close still has to be flushed.
    for woi in [true, false] {
        let mut cfg = HybCfg::small(woi, true);
        cfg.mem_capacity = 3;
        cfg.submit_threshold = 24 * 1024;
        let big = cfg.max_entry_size() + 100;
        let prologue = vec![
            HOp::Ins { k: 3, sz: big, loc: Loc::Default },
            HOp::Fill { n: 3 },
            HOp::Wait,
            HOp::Ins { k: 3, sz: big, loc: Loc::Default },
            HOp::Fill { n: 3 },
            HOp::Wait,
        ];
        for body in sequences(&alpha[..4].to_vec(), 2) {
            if !body.iter().any(|o| matches!(o, HOp::Ins { loc: Loc::Default, .. })) {
                continue;
            }
            let mut prog = body.clone();
            prog.push(HOp::Close);
            jobs.push(HybJob {
                cfg: cfg.clone(),
                prog,
                policy: Eager,
                opts: RunOpts {
                    prologue: prologue.clone(),
                    final_reads: false,
                    final_restart: true,
                    universe: vec![1, 2, 3],
                    ..Default::default()
                },
                bound: 0,
            });
        }
    }
    // A burst of writes right before close: under write-on-eviction the evicted entries are still in the write
    // queue (the flusher has not run) when close() starts. The pending writes fit the 64 KiB flush buffer and so
    // does the resident set — each by itself, which is what close() relies on by waiting for the queue first.
    {
        let mut cfg = HybCfg::small(false, true);
        cfg.mem_capacity = 3;
        // one 2-page entry per 16 KiB block: enough blocks that the disk's own capacity eviction stays out
        cfg.blocks = 16;
        for n in [8u64, 9] {
            let mut prog: Vec<HOp> = (1..=n).map(|k| HOp::Ins { k, sz: 5000, loc: Loc::Default }).collect();
            prog.push(HOp::Close);
            for policy in [ClientFirst, LazyIo] {
                jobs.push(HybJob {
                    cfg: cfg.clone(),
                    prog: prog.clone(),
                    policy,
                    opts: RunOpts {
                        final_reads: false,
                        final_restart: true,
                        universe: (1..=n).collect(),
                        ..Default::default()
                    },
                    bound: 0,
                });
            }
        }
    }
    jobs
}

// ---------------------------------------------------------------------------------------------
// C11 — explicit insert vs in-flight fetch
// ---------------------------------------------------------------------------------------------

fn c11_judge(_job: &HybJob, out: &RunOut) -> Vec<Complaint> {
    let mut v = vec![];
    let h = out.world.hist.lock().unwrap();
    for o in h.origins.iter() {
        let (Some(start), key) = (o.first_poll, o.key) else { continue };
        let resolved = o.resolved.unwrap_or(u64::MAX);
        // Explicit inserts of the key that completed while the origin was still pending.
        let during: Vec<&WriteEv> = h
            .writes
            .iter()
            .filter(|w| w.key == key && matches!(w.kind, WKind::Insert { .. }) && w.invoke > start && w.resp.map(|r| r < resolved).unwrap_or(false))
            .collect();
        let Some(first) = during.first() else { continue };
        // All callers waiting at that moment receive the inserted value.
        for l in h.lookups.iter().filter(|l| l.key == key && (l.kind == "gof" || l.kind == "get")) {
            let waiting = l.invoke < first.invoke && l.answered.or(l.resp).map(|r| r >= first.invoke).unwrap_or(true);
            if !waiting {
                continue;
            }
            match &l.res {
                LookupRes::Hit { ver, .. } if *ver == first.ver => {}
                LookupRes::Dropped => {}
                other => v.push((
                    "F.waiter-not-answered-by-insert",
                    format!(
                        "insert(k{key}) v{} completed at t{} while {}(k{key}) (t{}..{:?}) was waiting on its origin, but the caller received {:?}",
                        first.ver, first.invoke, l.kind, l.invoke, l.resp, other
                    ),
                )),
            }
        }
        // The late fetch result never replaces the inserted value.
        if let Some(fv) = o.ver {
            let last_insert = during.last().unwrap();
            for l in h.lookups.iter().filter(|l| l.key == key && l.invoke > resolved) {
                if let LookupRes::Hit { ver, .. } = &l.res {
                    let newer_insert_after = h
                        .writes
                        .iter()
                        .any(|w| w.key == key && w.invoke > resolved && matches!(w.kind, WKind::Insert { .. } | WKind::FetchInsert { .. }) && w.ver != fv);
                    if *ver == fv && !newer_insert_after {
                        v.push((
                            "F.late-fetch-replaced-insert",
                            format!(
                                "insert(k{key}) v{} completed at t{} while a fetch was waiting on its origin (polled t{start}, resolved t{resolved} with v{fv}); a lookup at t{} returned the fetched v{fv}",
                                last_insert.ver, last_insert.invoke, l.invoke
                            ),
                        ));
                    }
                }
            }
        }
    }
    v
}

fn c11_jobs(tier: Tier) -> Vec<HybJob> {
    let mut jobs = vec![];
    let mut cfgs = vec![];
    for algo in Algo::defaults() {
        let mut c = HybCfg::small(false, false);
        c.noop_storage = true;
        c.mem_algo = algo;
        c.mem_capacity = 4;
        cfgs.push(c);
    }
    for woi in [true, false] {
        let mut c = HybCfg::small(woi, false);
        c.mem_capacity = 4;
        cfgs.push(c);
    }
    let progs: Vec<Vec<HOp>> = vec![
        vec![HOp::GofHeld { k: 1, sz: 100 }, HOp::Ins { k: 1, sz: 100, loc: Loc::Default }, HOp::Get { k: 1 }],
        vec![
            HOp::GofHeld { k: 1, sz: 100 },
            HOp::Get { k: 1 },
            HOp::Ins { k: 1, sz: 100, loc: Loc::Default },
            HOp::Get { k: 1 },
        ],
        vec![
            HOp::GofHeld { k: 1, sz: 100 },
            HOp::GofHeld { k: 1, sz: 100 },
            HOp::Ins { k: 1, sz: 100, loc: Loc::Default },
            HOp::Get { k: 1 },
        ],
        vec![
            HOp::Get { k: 1 },
            HOp::GofHeld { k: 1, sz: 100 },
            HOp::Ins { k: 1, sz: 100, loc: Loc::Default },
            HOp::Ins { k: 1, sz: 100, loc: Loc::Default },
            HOp::Get { k: 1 },
        ],
        // The explicit insert is a disk-only one (its memory record is a phantom that is never indexed): it
        // supersedes the pending fetch all the same.
        vec![HOp::GofHeld { k: 1, sz: 100 }, HOp::Ins { k: 1, sz: 100, loc: Loc::OnDisk }, HOp::Get { k: 1 }],
        vec![
            HOp::GofHeld { k: 1, sz: 100 },
            HOp::Get { k: 1 },
            HOp::Ins { k: 1, sz: 100, loc: Loc::OnDisk },
            HOp::Get { k: 1 },
        ],
        vec![HOp::GofHeld { k: 1, sz: 100 }, HOp::SwIns { k: 1, sz: 100 }, HOp::Get { k: 1 }],
        vec![HOp::GofHeld { k: 1, sz: 100 }, HOp::Ins { k: 1, sz: 100, loc: Loc::InMem }, HOp::Get { k: 1 }],
    ];
    let bound = if tier == Tier::Quick { 2 } else { 4 };
    for cfg in cfgs {
        for prog in progs.iter() {
            for policy in [BasePolicy::Eager, BasePolicy::ClientFirst, BasePolicy::LazyIo] {
                jobs.push(HybJob {
                    cfg: cfg.clone(),
                    prog: prog.clone(),
                    policy,
                    opts: RunOpts {
                        final_reads: true,
                        final_restart: false,
                        universe: vec![1],
                        ..Default::default()
                    },
                    bound,
                });
            }
        }
    }
    jobs
}

// ---------------------------------------------------------------------------------------------
// C06 — coalescing and liveness of fetches
// ---------------------------------------------------------------------------------------------

fn c06_judge(_job: &HybJob, out: &RunOut) -> Vec<Complaint> {
    let mut v = vec![];
    let h = out.world.hist.lock().unwrap();
    // (1) at most one origin future is being executed at a time, per key.
    let mut spans: Vec<(u64, u64, u64, usize)> = h
        .origins
        .iter()
        .filter_map(|o| o.first_poll.map(|s| (o.key, s, o.resolved.unwrap_or(u64::MAX), o.op)))
        .collect();
    spans.sort();
    for a in 0..spans.len() {
        for b in a + 1..spans.len() {
            if spans[a].0 == spans[b].0 && spans[b].1 < spans[a].2 && spans[a].1 < spans[b].2 {
                v.push((
                    "F.two-origins",
                    format!(
                        "two origin fetches of k{} ran at the same time: call #{} t{}..{} and call #{} t{}..{}",
                        spans[a].0, spans[a].3, spans[a].1, spans[a].2, spans[b].3, spans[b].1, spans[b].2
                    ),
                ));
            }
        }
    }
    // (2) every caller is answered (stalls are reported by the liveness clause), consistently.
    for o in h.origins.iter() {
        let Some(start) = o.first_poll else { continue };
        let end = o.resolved.unwrap_or(u64::MAX);
        let explicit_write_during = h
            .writes
            .iter()
            .any(|w| w.key == o.key && !matches!(w.kind, WKind::FetchInsert { .. }) && w.invoke >= start.saturating_sub(1) && w.invoke <= end);
        // Callers that were waiting for the whole life of this origin fetch.
        for l in h.lookups.iter().filter(|l| l.key == o.key && (l.kind == "gof" || l.kind == "get")) {
            let covered = l.invoke <= start && l.answered.or(l.resp).map(|r| r >= end).unwrap_or(true) && end != u64::MAX;
            if !covered || explicit_write_during {
                continue;
            }
            match (&l.res, o.ver) {
                (LookupRes::Dropped, _) => {}
                (LookupRes::Hit { ver, .. }, Some(fv)) => {
                    if *ver != fv {
                        v.push((
                            "F.different-entry",
                            format!("{}(k{}) waited for the fetch that produced v{fv} but received v{ver}", l.kind, l.key),
                        ));
                    }
                }
                (LookupRes::Err(e), None) => {
                    if !(e.contains("External") || e.contains("TaskCancelled") || e.contains("ChannelClosed")) {
                        v.push(("F.wrong-error", format!("{}(k{}) got {e} for a failed origin fetch", l.kind, l.key)));
                    }
                }
                (LookupRes::Err(e), Some(fv)) => {
                    if !(e.contains("TaskCancelled") || e.contains("ChannelClosed")) || out.world.cancels_done == 0 {
                        v.push((
                            "F.error-on-success",
                            format!("{}(k{}) failed with {e} although the fetch it joined produced v{fv}", l.kind, l.key),
                        ));
                    }
                }
                (LookupRes::Miss, Some(fv)) => v.push((
                    "F.lookup-only-missed",
                    format!("lookup-only {}(k{}) was joined by a fetching caller (v{fv}) but resolved to a miss", l.kind, l.key),
                )),
                (LookupRes::Miss, None) => {
                    if l.kind == "gof" {
                        v.push(("F.fetch-missed", format!("get_or_fetch(k{}) resolved to nothing", l.key)));
                    }
                }
                (LookupRes::Hit { ver, .. }, None) => v.push((
                    "F.value-from-failed-fetch",
                    format!("{}(k{}) received v{ver} although the only origin fetch failed", l.kind, l.key),
                )),
                _ => {}
            }
        }
    }
    // (2b) a get_or_fetch caller fails only with the error of an origin fetch that failed while it was waiting
    // (or with a cancellation error if a fetch task / caller was dropped): a failed *disk lookup* is followed by
    // the origin fetch, it is not an answer.
    for l in h.lookups.iter().filter(|l| l.kind == "gof") {
        let LookupRes::Err(e) = &l.res else { continue };
        let end = l.answered.or(l.resp).unwrap_or(u64::MAX);
        let failed_origin = h
            .origins
            .iter()
            .any(|o| o.key == l.key && o.ver.is_none() && o.first_poll.is_some() && o.resolved.map(|r| r >= l.invoke && r <= end).unwrap_or(false));
        let cancelled = (e.contains("TaskCancelled") || e.contains("ChannelClosed")) && out.world.cancels_done > 0;
        if !failed_origin && !cancelled {
            v.push((
                "F.error-without-failed-fetch",
                format!("get_or_fetch(k{}) (t{}..{:?}) failed with {e} although no origin fetch of the key failed while it was waiting (origins: {:?})", l.key, l.invoke, l.resp, h.origins.iter().filter(|o| o.key == l.key).map(|o| (o.first_poll, o.resolved, o.ver, o.dropped)).collect::<Vec<_>>()),
            ));
        }
    }
    // (3) a failed fetch caches nothing.
    for l in h.lookups.iter().filter(|l| l.kind == "final") {
        let any_success = h.writes.iter().any(|w| w.key == l.key);
        if !any_success {
            if let LookupRes::Hit { ver, .. } = &l.res {
                v.push((
                    "F.failed-fetch-cached",
                    format!("no insert or successful fetch of k{} ever happened, yet a later lookup returns v{ver}", l.key),
                ));
            }
        }
    }
    // A cancelled fetch task must answer its waiters with a cancellation error, which the stall clause
    // enforces (nobody may hang).
    v.extend(oracle_r::check(&h, &_job.cfg).into_iter().filter(|(c, _)| *c == "R.foreign" || *c == "R.garbage"));
    v
}

fn c06_jobs(tier: Tier) -> Vec<HybJob> {
    let mut jobs = vec![];
    let mut cfgs = vec![];
    let algos = if tier == Tier::Quick { vec![Algo::Fifo, Algo::Lru { ratio: 0.9 }] } else { Algo::defaults() };
    for algo in algos {
        let mut c = HybCfg::small(false, false);
        c.noop_storage = true;
        c.mem_algo = algo;
        c.mem_capacity = 4;
        cfgs.push(c);
    }
    for woi in [true, false] {
        let mut c = HybCfg::small(woi, false);
        c.mem_capacity = 4;
        cfgs.push(c);
    }
    let g = HOp::GofHeld { k: 1, sz: 100 };
    let get = HOp::Get { k: 1 };
    let ins = HOp::Ins { k: 1, sz: 100, loc: Loc::Default };
    let rm = HOp::Rm { k: 1 };
    // With a disk copy present (hybrid configurations): ins; fill; wait puts k1 on disk only.
    let seed = vec![ins, HOp::Fill { n: 4 }, HOp::Wait];
    let cores: Vec<Vec<HOp>> = vec![
        vec![g, g],
        vec![get, g],
        vec![g, get],
        vec![g, g, g],
        vec![get, get, g],
        vec![get, g, get],
        vec![g, get, g],
        vec![get, g, get, g],
        vec![g, ins],
        vec![g, rm, g],
        vec![get, g, rm],
    ];
    let mut cores = cores;
    if tier == Tier::Thorough {
        cores.extend([
            vec![g, get, get],
            vec![get, get, g, g],
            vec![g, g, rm],
            vec![g, ins, g],
            vec![get, g, ins],
            vec![g, g, g, g],
        ]);
    }
    let bound = if tier == Tier::Quick { 2 } else { 5 };
    for cfg in cfgs {
        for core in cores.iter() {
            // disk state: 0 = key absent, 1 = key on disk only, 2 = key on disk only and lookups throttled
            for disk_state in [0u8, 1, 2] {
                let with_disk_copy = disk_state > 0;
                if with_disk_copy && cfg.noop_storage {
                    continue;
                }
                // The disk state is established by a FIFO prologue (everything quiesces), so that under every
                // base schedule the callers below really find the key on disk only - not in the write queue.
                let mut prologue = if with_disk_copy { seed.clone() } else { vec![] };
                if disk_state == 2 {
                    if core.len() > 2 {
                        continue;
                    }
                    prologue.push(HOp::ThrottleLoads);
                }
                let prog: Vec<HOp> = core.to_vec();
                for (policy, faults, cancels) in [
                    (BasePolicy::ClientFirst, 0usize, 0usize),
                    (BasePolicy::Eager, 0, 0),
                    (BasePolicy::ClientFirst, 0, 1),
                    (BasePolicy::ClientFirst, 1, 0),
                ] {
                    if faults > 0 && !with_disk_copy {
                        continue;
                    }
                    jobs.push(HybJob {
                        cfg: cfg.clone(),
                        prog: prog.clone(),
                        policy,
                        opts: RunOpts {
                            final_reads: true,
                            final_restart: false,
                            universe: vec![1],
                            io_faults: faults,
                            cancels,
                            prologue: prologue.clone(),
                            ..Default::default()
                        },
                        bound,
                    });
                }
            }
        }
    }
    jobs
}

// ---------------------------------------------------------------------------------------------
// C17 — hash collisions (hybrid part)
// ---------------------------------------------------------------------------------------------

fn c17_judge(job: &HybJob, out: &RunOut) -> Vec<Complaint> {
    let h = out.world.hist.lock().unwrap();
    let mut v: Vec<Complaint> = oracle_r::check(&h, &job.cfg)
        .into_iter()
        .map(|(c, m)| (if c == "R.foreign" { "C.alias" } else { c }, m))
        .collect();
    // Both colliding keys must be able to live in memory side by side.
    for w in h.writes.iter() {
        if let WKind::Insert { loc: Loc::Default, .. } = w.kind {
            if w.in_memory_after == Some(false) {
                v.push(("C.not-resident", format!("k{} v{} is not findable in memory right after its insert", w.key, w.ver)));
            }
        }
    }
    v
}

pub(crate) fn c17_jobs(tier: Tier) -> Vec<HybJob> {
    let mut jobs = vec![];
    // keys 1 and 2 collide on the full 64-bit hash; key 3 shares only the memory shard / indexer shard.
    let table = vec![0u64, 77, 77, 78];
    let alpha: Vec<Vec<HOp>> = vec![
        vec![HOp::Ins { k: 1, sz: 100, loc: Loc::Default }],
        vec![HOp::Ins { k: 2, sz: 100, loc: Loc::Default }],
        vec![HOp::Ins { k: 2, sz: 5000, loc: Loc::Default }],
        vec![HOp::Get { k: 1 }],
        vec![HOp::Get { k: 2 }],
        vec![HOp::Gof { k: 1, sz: 100 }],
        vec![HOp::Rm { k: 2 }],
        vec![HOp::Fill { n: 3 }],
        vec![HOp::Wait],
        vec![HOp::Close, HOp::Reopen],
    ];
    let len = if tier == Tier::Quick { 3 } else { 4 };
    use BasePolicy::*;
    let plan: Vec<(BasePolicy, usize)> = match tier {
        Tier::Quick => vec![(Eager, 0), (LazyIo, 1), (Alternate, 0)],
        Tier::Thorough => vec![(Eager, 1), (LazyIo, 1), (Alternate, 1)],
    };
    for woi in [true, false] {
        let mut cfg = HybCfg::small(woi, true);
        cfg.hash_table = table.clone();
        cfg.mem_capacity = 3;
        for prog in sequences(&alpha, len) {
            let touches_1 = prog.iter().any(|o| matches!(o, HOp::Ins { k: 1, .. } | HOp::Gof { k: 1, .. }));
            let touches_2 = prog.iter().any(|o| matches!(o, HOp::Ins { k: 2, .. }));
            if !(touches_1 || touches_2) {
                continue;
            }
            for (policy, bound) in plan.iter() {
                jobs.push(HybJob {
                    cfg: cfg.clone(),
                    prog: prog.clone(),
                    policy: *policy,
                    opts: RunOpts {
                        final_reads: true,
                        final_restart: !prog.iter().any(|o| matches!(o, HOp::Reopen)),
                        universe: vec![1, 2, 3],
                        ..Default::default()
                    },
                    bound: *bound,
                });
            }
        }
    }
    // Directed longer histories (both tiers): one colliding key is queued for writing while the other one, loaded
    // back from a young disk block, is evicted again (the engine skips it and gives its write-queue reference
    // back at once, out of FIFO order), then rewritten and evicted once more.
    let ins = |k: u64| HOp::Ins { k, sz: 100, loc: Loc::Default };
    let fill = HOp::Fill { n: 3 };
    let directed: Vec<(Vec<HOp>, Vec<HOp>)> = vec![
        (vec![ins(2), fill, HOp::Wait], vec![ins(1), fill, HOp::Get { k: 2 }, fill, ins(2), fill, HOp::Get { k: 1 }, HOp::Get { k: 2 }]),
        (vec![ins(1), fill, HOp::Wait], vec![ins(2), fill, HOp::Get { k: 1 }, fill, ins(1), fill, HOp::Get { k: 2 }, HOp::Get { k: 1 }]),
        (vec![ins(2), fill, HOp::Wait], vec![ins(1), HOp::Get { k: 2 }, fill, HOp::Get { k: 2 }, fill, HOp::Rm { k: 1 }, HOp::Get { k: 2 }]),
        // an older version of one key on disk, its update and an insert of the colliding key both queued, memory
        // emptied, then lookups while the writes are still pending
        (vec![ins(1), fill, HOp::Wait], vec![ins(1), ins(2), fill, HOp::Get { k: 1 }, HOp::Get { k: 2 }]),
        (vec![ins(2), fill, HOp::Wait], vec![ins(2), ins(1), fill, HOp::Get { k: 2 }, HOp::Get { k: 1 }]),
    ];
    for woi in [true, false] {
        let mut cfg = HybCfg::small(woi, true);
        cfg.hash_table = table.clone();
        cfg.mem_capacity = 3;
        for (prologue, prog) in directed.iter() {
            for (policy, bound) in [(LazyIo, 1usize), (Alternate, 0), (ClientFirst, 0), (Eager, 0)] {
                jobs.push(HybJob {
                    cfg: cfg.clone(),
                    prog: prog.clone(),
                    policy,
                    opts: RunOpts {
                        final_reads: true,
                        final_restart: true,
                        universe: vec![1, 2, 3],
                        prologue: prologue.clone(),
                        ..Default::default()
                    },
                    bound,
                });
            }
        }
    }
    jobs
}

pub fn props() -> Vec<HybProp> {
    vec![
        HybProp {
            id: "C06",
            owned: vec!["F.", "R.", "X."],
            jobs: c06_jobs,
            judge: c06_judge,
            rule: "Engine V, event level: programs of 2-3 overlapping callers of one absent key (get_or_fetch with a harness-held origin, lookup-only get), optionally with a concurrent insert/remove and with the key present on disk only; memory-only (NoopEngine) x algorithms and hybrid x both policies. The explorer owns: which task is polled, which disk read completes or FAILS (1 injected error), when each held origin resolves and whether with ok or error, cancellation of the fetch task, dropping a waiting caller. All schedules within the deviation bound of ClientFirst/Eager are explored. Oracle: origin executions of one key never overlap; every caller resolves (nothing hangs at quiescence); callers that waited through a fetch receive that fetch's entry / error; a lookup-only caller joined by a fetcher gets the entry; a failed fetch caches nothing.",
            assumptions: vec!["disk-lookup throttling is injected through foyer's own test_utils LoadThrottleSwitch (a third disk state beside absent / on disk)"],
            level: "model_checking",
            need_tiers: vec![0],
            max_execs_per_job: 5_000_000,
        },
        HybProp {
            id: "C11",
            owned: vec!["F.", "X."],
            jobs: c11_jobs,
            judge: c11_judge,
            rule: "Engine V: programs {held fetch(es) of k, optional lookup-only waiter, insert(k) once or twice, lookup} for memory-only x five algorithms and hybrid x both policies; all schedules within the deviation bound (task polls, origin resolving ok/err before or after the insert, IO completion). Oracle: callers waiting when insert(k, v) completes while the origin is pending receive v; after the origin resolves later, lookups never return the fetched value.",
            assumptions: vec!["'while still waiting on its origin' is evaluated at the granularity of one task poll"],
            level: "model_checking",
            need_tiers: vec![1],
            max_execs_per_job: 5_000_000,
        },
        HybProp {
            id: "C12",
            owned: vec!["P.", "X."],
            jobs: c12_jobs,
            judge: c12_judge,
            rule: "Engine V: every history of up to 3 (quick) / 4 (thorough) calls over {insert with Default / InMem / OnDisk advice (one key each), get, get_or_fetch on a Default and an OnDisk key, fill (memory eviction), close} x both policies x flush_on_close on/off x admission admit/reject, under Eager, LazyIo(bound 1) and Alternate schedules. Oracle P evaluated on the device IO log decoded by the independent format reader D: which (key, version) each write carried and when; in-memory-only entries never reach the device (also not at close), on-disk entries are not retained in memory and are written; write-on-insertion writes inserts and origin fetches exactly once and nothing on hits/evictions; write-on-eviction writes only after eviction or while close flushes; rejected entries are not written; the origin future is never polled when a tier served the entry.",
            assumptions: vec!["no block is near reclaim in these configurations, so an entry loaded from disk is never 'old' and must not be rewritten", "admission 'throttle' is not driven (wall-clock based)"],
            level: "model_checking",
            need_tiers: vec![1, 2],
            max_execs_per_job: 20_000,
        },
        HybProp {
            id: "C15",
            owned: vec!["D.", "X."],
            jobs: c15_jobs,
            judge: c15_judge,
            rule: "Engine V: every history of up to 3 (quick) / 4 (thorough) calls over {insert k1 small/2-page, insert k2 in-memory-only, insert k3, fill, wait, get} followed by close / close;close / close;insert, then reopen and read every key; both policies x flush_on_close on/off, tombstone log on; Eager, LazyIo, Alternate (and ClientFirst) schedules within the deviation bound. Oracle: with flush-on-close (or write-on-insertion) every key whose latest value was in the cache at close and is not in-memory-only reads back as that version; in-memory-only values never read back; with flush-on-close off nothing is written during close; a second close writes nothing; inserts after close never reach the device.",
            assumptions: vec!["resident sets are far below the flush buffer; no disk-capacity eviction happens"],
            level: "model_checking",
            need_tiers: vec![2],
            max_execs_per_job: 20_000,
        },
        HybProp {
            id: "C17",
            owned: vec!["C.", "R.", "X."],
            jobs: c17_jobs,
            judge: c17_judge,
            rule: "Engine V with a user-supplied hasher that maps keys 1 and 2 to the same 64-bit hash (key 3: same shards, different hash): every history of up to 3 (quick) / 4 (thorough) calls over {insert k1, insert k2 small/2-page, get k1, get k2, get_or_fetch k1, remove k2, fill, wait, close+reopen}, both policies, tombstone log on, with final reads and a final restart. Oracle R: a lookup of one key never returns the other key's value (in memory, in the write queue, on disk, after recovery); both keys are resident in memory after their inserts.",
            assumptions: vec!["the memory-only part of C17 is the Engine S run with the same colliding hasher"],
            level: "model_checking",
            need_tiers: vec![1, 2],
            max_execs_per_job: 20_000,
        },
    ]
}
