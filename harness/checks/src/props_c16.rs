//! C16 — user callbacks run outside cache locks, so re-entrant use cannot deadlock (Engine S part).
//!
//! The event listener, the weighter, the filter and the destructors of keys and values (a) check
//! through the lock facade that the calling thread holds none of the cache's locks and (b) call back
//! into the same single-shard cache. Every operation sequence up to a depth is run; in-flight
//! fetches are included so that the in-flight table's key clones are created and dropped.

use std::{
    cell::Cell,
    panic::{catch_unwind, AssertUnwindSafe},
    sync::{Arc, Mutex},
    time::{Duration, Instant},
};

use serde::{Deserialize, Serialize};
use serde_json::{json, Value};
use tokio::sim;
use vcore::evidence::{ShardResult, Violation};

use crate::{
    framework::{Prop, Tier},
    memdrive::*,
    memmodel::Algo,
};

#[derive(Debug, Clone, Copy, PartialEq, Eq, Serialize, Deserialize)]
pub enum Reenter {
    Get,
    Insert,
    Remove,
    None,
}

#[derive(Debug, Clone, Copy, PartialEq, Eq, Serialize, Deserialize)]
pub enum COp {
    Ins { k: u64, w: usize, hold: bool },
    InsReject { k: u64 },
    Get { k: u64, hold: bool },
    Rm { k: u64 },
    Touch { k: u64 },
    Clear,
    Resize { c: usize },
    EvictAll,
    DropH { slot: usize },
    /// get_or_fetch whose origin resolves at once; the runtime is driven to quiescence afterwards.
    Fetch { k: u64 },
    /// get_or_fetch whose origin fails.
    FetchErr { k: u64 },
    /// Start a fetch, insert the key before the fetch task runs, then run everything.
    FetchThenInsert { k: u64 },
    /// A lookup-only fetch (what `HybridCache::get` issues: an optional fetch — the disk lookup — and no
    /// required fetch) whose optional fetch misses: the leader hands `None` to its waiters and drops the
    /// in-flight entry's key clone.
    LookupMiss { k: u64 },
    /// The same lookup-only leader joined, before its task runs, by a `get_or_fetch` caller: the leader runs
    /// the donated fetch after its own lookup missed.
    LookupJoinedByFetch { k: u64 },
}

#[derive(Debug, Clone, Serialize, Deserialize)]
pub struct C16Job {
    pub algo: Algo,
    pub capacity: usize,
    pub reenter: Reenter,
    /// No event listener (and no pipe): some paths only hand garbage out of the lock when one exists.
    #[serde(default)]
    pub no_listener: bool,
}

pub struct C16Prop;

thread_local! {
    static DEPTH: Cell<u32> = const { Cell::new(0) };
}

struct Run {
    complaints: Arc<Mutex<Vec<(String, String)>>>,
    callbacks: Arc<Mutex<u64>>,
}

fn install_hook(cache: &MC, reenter: Reenter, run: &Run) {
    let weak = cache.clone();
    let complaints = run.complaints.clone();
    let callbacks = run.callbacks.clone();
    let next = Arc::new(Mutex::new(1_000_000u64));
    set_hook(Some(Arc::new(move |cb: Callback, _v: u64| {
        *callbacks.lock().unwrap() += 1;
        let held = parking_lot::held_by_this_thread();
        if held > 0 {
            let mut c = complaints.lock().unwrap();
            let clause = format!("K.lock-held:{cb:?}");
            if !c.iter().any(|(cl, _)| *cl == clause) {
                c.push((clause, format!("{cb:?} callback invoked while the calling thread holds {held} cache lock(s): {:?}", parking_lot::held_locks())));
            }
            // Re-entering now would self-deadlock; the violation is already recorded.
            return;
        }
        let d = DEPTH.with(|d| d.get());
        if d >= 1 {
            return;
        }
        DEPTH.with(|d| d.set(d.get() + 1));
        match (cb, reenter) {
            (_, Reenter::None) => {}
            // Weighter and filter run inside insert before any lock: only a read-only call is safe to make
            // without recursing into insert forever.
            (Callback::Weighter | Callback::Filter, _) => {
                let _ = weak.contains(&DK(2));
            }
            (_, Reenter::Get) => {
                let e = weak.get(&DK(1));
                drop(e);
                let _ = weak.contains(&DK(2));
            }
            (_, Reenter::Insert) => {
                let id = {
                    let mut n = next.lock().unwrap();
                    *n += 1;
                    *n
                };
                let e = weak.insert(DK(3), DV(enc_value(id, 1, false)));
                drop(e);
            }
            (_, Reenter::Remove) => {
                let e = weak.remove(&DK(2));
                drop(e);
            }
        }
        DEPTH.with(|d| d.set(d.get() - 1));
    })));
}

fn run_seq(job: &C16Job, ops: &[COp], res: &mut ShardResult) -> Vec<(String, String)> {
    sim::reset();
    let cfg = MemCfg {
        algo: job.algo,
        capacity: job.capacity,
        shards: 1,
        hash_table: vec![],
        pipe: !job.no_listener,
        predict: false,
        no_listener: job.no_listener,
    };
    let rec = Arc::new(Recorder::default());
    let hasher = VHash::default();
    let cache = build_cache(&cfg, &rec, &hasher);
    let run = Run {
        complaints: Arc::new(Mutex::new(vec![])),
        callbacks: Arc::new(Mutex::new(0)),
    };
    install_hook(&cache, job.reenter, &run);
    let mut slots: Vec<Option<ME>> = vec![];
    let mut next_id = 1u64;
    let mut out: Vec<(String, String)> = vec![];
    for op in ops {
        let c2 = cache.clone();
        let op = *op;
        let r = catch_unwind(AssertUnwindSafe(|| {
            let mut new_slot: Option<ME> = None;
            let mut drop_slot: Option<usize> = None;
            match op {
                COp::Ins { k, w, hold } => {
                    let e = c2.insert(DK(k), DV(enc_value(next_id, w, false)));
                    if hold {
                        new_slot = Some(e);
                    }
                }
                COp::InsReject { k } => {
                    let e = c2.insert(DK(k), DV(enc_value(next_id, 1, true)));
                    drop(e);
                }
                COp::Get { k, hold } => {
                    if let Some(e) = c2.get(&DK(k)) {
                        if hold {
                            new_slot = Some(e);
                        }
                    }
                }
                COp::Rm { k } => {
                    let e = c2.remove(&DK(k));
                    drop(e);
                }
                COp::Touch { k } => {
                    let _ = c2.touch(&DK(k));
                }
                COp::Clear => c2.clear(),
                COp::Resize { c } => {
                    let _ = c2.resize(c);
                }
                COp::EvictAll => c2.evict_all(),
                COp::DropH { slot } => drop_slot = Some(slot),
                COp::LookupMiss { k } | COp::LookupJoinedByFetch { k } => {
                    use futures_util::FutureExt;
                    let id = next_id;
                    let fut = c2.get_or_fetch_inner(
                        &DK(k),
                        || {
                            let b: foyer_memory::OptionalFetchBuilder<DK, DV, foyer_memory::CacheProperties, ()> =
                                Box::new(|_: &mut ()| async { Ok(None::<foyer_memory::FetchTarget<DK, DV, foyer_memory::CacheProperties>>) }.boxed());
                            Some(b)
                        },
                        || None,
                        (),
                        &foyer_common::spawn::Spawner::current(),
                    );
                    let joiner = if matches!(op, COp::LookupJoinedByFetch { .. }) {
                        Some(c2.get_or_fetch(&DK(k), || async move { Ok::<DV, anyhow::Error>(DV(enc_value(id, 1, false))) }))
                    } else {
                        None
                    };
                    let h = sim::spawn_labelled("lookup-caller".into(), async move {
                        let mut fut = std::pin::pin!(fut);
                        let r = std::future::poll_fn(|cx| fut.as_mut().poll_inner(cx)).await;
                        drop(r);
                    });
                    let h2 = joiner.map(|j| {
                        sim::spawn_labelled("fetch-caller".into(), async move {
                            let r = j.await;
                            drop(r);
                        })
                    });
                    sim::run_until_stalled(10_000);
                    drop(h);
                    drop(h2);
                }
                COp::Fetch { k } | COp::FetchErr { k } | COp::FetchThenInsert { k } => {
                    let id = next_id;
                    let fail = matches!(op, COp::FetchErr { .. });
                    let fut = c2.get_or_fetch(&DK(k), || async move {
                        if fail {
                            Err(anyhow::anyhow!("origin failed"))
                        } else {
                            Ok::<DV, anyhow::Error>(DV(enc_value(id, 1, false)))
                        }
                    });
                    if matches!(op, COp::FetchThenInsert { .. }) {
                        let e = c2.insert(DK(k), DV(enc_value(id + 500_000, 1, false)));
                        drop(e);
                    }
                    let h = sim::spawn_labelled("caller".into(), async move {
                        let r = fut.await;
                        drop(r);
                    });
                    sim::run_until_stalled(10_000);
                    drop(h);
                }
            }
            (new_slot, drop_slot)
        }));
        next_id += 1;
        res.add("steps", 1);
        match r {
            Ok((new_slot, drop_slot)) => {
                if let Some(e) = new_slot {
                    slots.push(Some(e));
                }
                if let Some(i) = drop_slot {
                    if let Some(s) = slots.get_mut(i) {
                        let e = s.take();
                        if let Err(p) = catch_unwind(AssertUnwindSafe(move || drop(e))) {
                            out.push(classify(&sim::panic_message(&p), "drop of a handle"));
                        }
                    }
                }
            }
            Err(p) => {
                out.push(classify(&sim::panic_message(&p), &format!("{op:?}")));
                break;
            }
        }
        for p in sim::take_panics() {
            out.push(classify(&p, "a fetch task"));
        }
        if !out.is_empty() {
            break;
        }
    }
    // Tear down with the hook still installed: destructors of everything that is left run now.
    let r = catch_unwind(AssertUnwindSafe(move || {
        drop(slots);
        drop(cache);
        sim::reset();
    }));
    if let Err(p) = r {
        out.push(classify(&sim::panic_message(&p), "drop of the cache"));
    }
    set_hook(None);
    DEPTH.with(|d| d.set(0));
    res.add("callbacks", *run.callbacks.lock().unwrap());
    out.extend(run.complaints.lock().unwrap().drain(..));
    out
}

fn classify(msg: &str, what: &str) -> (String, String) {
    if msg.contains("self-deadlock") {
        ("K.self-deadlock".to_string(), format!("{what} deadlocks against itself: {msg}"))
    } else {
        ("X.panic".to_string(), format!("{what} did not complete: {msg}"))
    }
}

fn alphabet(capacity: usize) -> Vec<COp> {
    vec![
        COp::Ins { k: 1, w: 1, hold: false },
        COp::Ins { k: 2, w: 1, hold: false },
        COp::Ins { k: 1, w: 2, hold: true },
        COp::Ins { k: 4, w: capacity.min(15), hold: false },
        COp::InsReject { k: 2 },
        COp::Get { k: 1, hold: true },
        COp::Get { k: 2, hold: false },
        COp::Rm { k: 1 },
        COp::Touch { k: 2 },
        COp::Clear,
        COp::Resize { c: 1 },
        COp::EvictAll,
        COp::DropH { slot: 0 },
        COp::Fetch { k: 5 },
        COp::FetchErr { k: 5 },
        COp::FetchThenInsert { k: 5 },
        COp::LookupMiss { k: 5 },
        COp::LookupJoinedByFetch { k: 5 },
    ]
}

fn jobs(tier: Tier) -> Vec<C16Job> {
    let mut v = vec![];
    let caps: Vec<usize> = if tier == Tier::Quick { vec![2] } else { vec![1, 2, 3] };
    for algo in Algo::defaults() {
        for capacity in caps.iter() {
            for reenter in [Reenter::Get, Reenter::Insert, Reenter::Remove, Reenter::None] {
                if reenter == Reenter::None && tier == Tier::Quick {
                    continue;
                }
                v.push(C16Job {
                    algo,
                    capacity: *capacity,
                    reenter,
                    no_listener: false,
                });
                if reenter == Reenter::Get {
                    v.push(C16Job {
                        algo,
                        capacity: *capacity,
                        reenter,
                        no_listener: true,
                    });
                }
            }
        }
    }
    v
}

fn depth(tier: Tier) -> usize {
    if tier == Tier::Quick {
        3
    } else {
        4
    }
}

fn sig(clause: &str, job: &C16Job) -> String {
    format!("{clause}|{}", job.algo.short())
}

impl Prop for C16Prop {
    fn id(&self) -> &'static str {
        "C16"
    }

    fn worker(&self, tier: Tier, shard: (usize, usize), deadline: Instant) -> ShardResult {
        let mut res = ShardResult::default();
        let js = jobs(tier);
        let d = depth(tier);
        let mut counter = 0usize;
        if shard.0 == 0 {
            res.add("jobs_total", js.len() as u64);
        }
        'jobs: for job in js.iter() {
            let alpha = alphabet(job.capacity);
            for len in 1..=d {
                // resize spawns OS threads: only as the last op of full-length sequences, anywhere in short ones
                let mut idx = vec![0usize; len];
                'seqs: loop {
                    let ops: Vec<COp> = idx.iter().map(|i| alpha[*i]).collect();
                    let resizes = ops.iter().filter(|o| matches!(o, COp::Resize { .. })).count();
                    let allowed = resizes == 0 || len <= 2 || (resizes == 1 && matches!(ops[len - 1], COp::Resize { .. }));
                    let mine = counter % shard.1 == shard.0;
                    counter += 1;
                    if mine && allowed {
                        if Instant::now() >= deadline {
                            res.capped = true;
                            break 'jobs;
                        }
                        let c = run_seq(job, &ops, &mut res);
                        res.add("executions", 1);
                        res.fp(vcore::fingerprint(&(format!("{:?}", job.algo), job.reenter as u8, job.no_listener, format!("{ops:?}"))));
                        if res.samples.len() < 2 && len == d {
                            res.sample(json!({"engine": "S", "job": job, "ops": ops}), 2);
                        }
                        for (clause, msg) in c {
                            let signature = sig(&clause, job);
                            if !res.violations.iter().any(|v| v.signature == signature) {
                                res.violations.push(Violation {
                                    property: "C16".into(),
                                    clause: clause.clone(),
                                    signature,
                                    message: format!("{msg}  [after {:?}; {} capacity {} re-entering with {:?}]", ops, job.algo.name(), job.capacity, job.reenter),
                                    witness: json!({"engine": "S", "job": job, "ops": ops}),
                                });
                            }
                        }
                        if res.violations.len() >= 8 {
                            break 'jobs;
                        }
                    }
                    let mut p = len;
                    loop {
                        if p == 0 {
                            break 'seqs;
                        }
                        p -= 1;
                        idx[p] += 1;
                        if idx[p] < alpha.len() {
                            break;
                        }
                        idx[p] = 0;
                    }
                }
            }
        }
        res
    }

    fn replay(&self, witness: &Value, verbose: bool) -> Vec<Violation> {
        let job: C16Job = serde_json::from_value(witness["job"].clone()).expect("job");
        let ops: Vec<COp> = serde_json::from_value(witness["ops"].clone()).expect("ops");
        if verbose {
            println!("replaying C16 {:?} on {:?}", ops, job);
        }
        let mut res = ShardResult::default();
        let mut vs = vec![];
        for (clause, msg) in run_seq(&job, &ops, &mut res) {
            let signature = sig(&clause, &job);
            if !vs.iter().any(|v: &Violation| v.signature == signature) {
                vs.push(Violation {
                    property: "C16".into(),
                    clause,
                    signature,
                    message: msg,
                    witness: witness.clone(),
                });
            }
        }
        vs
    }

    fn rule(&self) -> String {
        "Engine S with the lock facade as monitor: every sequence of up to 3 (quick) / 4 (thorough) operations over {insert, insert-and-hold, oversize insert, filter-rejected (disk-only) insert, get, get-and-hold, remove, touch, clear, resize, evict_all, drop handle, get_or_fetch ok / failing / superseded by an insert} on a single-shard cache with a pipe, for five algorithms x re-entry mode {lookup, insert, remove}, with an event listener and pipe configured and (re-entry by lookup) without either. The listener, weighter, filter and the Drop of the key and value types check plshim::held_by_this_thread() == 0 (the facade counts every Mutex/RwLock of the cache, including the in-flight table) and then call back into the same cache (depth 1). Oracle: no callback ever runs with a cache lock held; no operation panics with a self-deadlock (the facade reports re-acquisition of a held lock instead of hanging); everything completes.".into()
    }

    fn assumptions(&self) -> Vec<String> {
        vec![
            "single caller thread; multi-threaded deadlock freedom is explored by Engine T (C02 harness)".into(),
            "std::sync::RwLock inside the block manager is not intercepted by the facade".into(),
            "hybrid-tier destructors (write queue) are not instrumented in this check".into(),
        ]
    }

    fn bounds(&self, tier: Tier) -> Value {
        json!({"configurations": jobs(tier).len(), "depth": depth(tier), "alphabet": alphabet(2).len()})
    }

    fn vacuity(&self, _tier: Tier, r: &ShardResult) -> Vec<String> {
        let mut v = vec![];
        if r.get("executions") == 0 || r.get("callbacks") == 0 {
            v.push("no callback was ever invoked".into());
        }
        if r.fingerprints.len() < 2 {
            v.push("fewer than two distinct sequences".into());
        }
        v
    }

    fn wall_cap(&self, tier: Tier) -> Duration {
        match tier {
            Tier::Quick => Duration::from_secs(150),
            Tier::Thorough => Duration::from_secs(1200),
        }
    }
}
