//! Engine V world: a real `HybridCache` on a real `FsDevice` directory, driven through `vrt` (which
//! ready task is polled next), `simio` (which pending IO completes next, or fails) and a client
//! program (when the next call is issued). See DESIGN.md §2.3.

use std::{
    future::Future,
    path::PathBuf,
    sync::{
        atomic::{AtomicU64, AtomicUsize, Ordering},
        Arc, Mutex,
    },
};

use foyer::{
    BlockEngineConfig, Compression, DeviceBuilder, Event, EventListener, FifoPicker, FsDeviceBuilder, HybridCache,
    HybridCacheBuilder, HybridCacheEntry, HybridCachePolicy, HybridCacheProperties, Location, RecoverMode, RejectAll,
    Source, StorageFilter,
};
use foyer_storage::test_utils::{Biased, LoadThrottleSwitch};
use serde::{Deserialize, Serialize};
use serde_json::{json, Value};
use tokio::sim;
use vcore::Ctx;

use crate::{
    memdrive::VHash,
    memmodel::Algo,
    simio::{IoKind, IoOutcome, IoRec, SimIo, SimIoConfig, PAGE},
};

pub type HC = HybridCache<u64, HVal, VHash>;
pub type HE = HybridCacheEntry<u64, HVal, VHash>;

// ---------------------------------------------------------------------------------------------
// Lock monitor for user callbacks of the hybrid cache (C16)
// ---------------------------------------------------------------------------------------------

static LOCK_PROBE: Mutex<Vec<String>> = Mutex::new(Vec::new());

/// Called from every user callback the hybrid cache invokes (value destructor, event listener,
/// weighter, admission filter): records the callback if the calling thread holds a lock of the facade.
pub fn lock_probe(callback: &'static str) {
    let held = parking_lot::held_by_this_thread();
    if held > 0 {
        if let Ok(mut v) = LOCK_PROBE.lock() {
            if v.len() < 16 {
                v.push(format!("{callback} invoked while the calling thread holds {held} cache lock(s)"));
            }
        }
    }
}

pub fn lock_probe_take() -> Vec<String> {
    LOCK_PROBE.lock().map(|mut v| std::mem::take(&mut *v)).unwrap_or_default()
}

/// The value type of the hybrid cache under test: the bytes of `mkval`, encoded exactly like
/// `Vec<u8>`, with a destructor that probes the lock monitor.
#[derive(Debug, Clone, PartialEq, Eq)]
pub struct HVal(pub Vec<u8>);

impl std::ops::Deref for HVal {
    type Target = Vec<u8>;
    fn deref(&self) -> &Vec<u8> {
        &self.0
    }
}

impl Drop for HVal {
    fn drop(&mut self) {
        lock_probe("ValueDrop");
    }
}

impl foyer::Code for HVal {
    fn encode(&self, writer: &mut impl std::io::Write) -> foyer::Result<()> {
        self.0.encode(writer)
    }

    fn decode(reader: &mut impl std::io::Read) -> foyer::Result<Self> {
        Vec::<u8>::decode(reader).map(HVal)
    }

    fn estimated_size(&self) -> usize {
        self.0.estimated_size()
    }
}

/// Harness time as last set by whoever drives the execution (World::tick, Engine TH's threads).
pub static NOW: AtomicU64 = AtomicU64::new(0);
static ADMISSIONS: Mutex<Vec<(u64, u64)>> = Mutex::new(Vec::new());

/// (hash, harness time) of every entry offered to the disk tier (the admission filter runs in
/// `Store::enqueue`) since the last call.
pub fn admissions_take() -> Vec<(u64, u64)> {
    ADMISSIONS.lock().map(|mut v| std::mem::take(&mut *v)).unwrap_or_default()
}

#[derive(Debug)]
struct ThrottleAllFilter;

impl foyer::StorageFilterCondition for ThrottleAllFilter {
    fn filter(&self, _: &Arc<foyer::Statistics>, _: u64, _: usize) -> foyer::StorageFilterResult {
        lock_probe("AdmissionFilter");
        foyer::StorageFilterResult::Throttled(std::time::Duration::from_millis(1))
    }
}

#[derive(Debug)]
struct UpToFilter(usize);

impl foyer::StorageFilterCondition for UpToFilter {
    fn filter(&self, _: &Arc<foyer::Statistics>, _: u64, estimated_size: usize) -> foyer::StorageFilterResult {
        lock_probe("AdmissionFilter");
        if estimated_size <= self.0 {
            foyer::StorageFilterResult::Admit
        } else {
            foyer::StorageFilterResult::Reject
        }
    }
}

#[derive(Debug)]
struct ProbeFilter;

impl foyer::StorageFilterCondition for ProbeFilter {
    fn filter(&self, _: &Arc<foyer::Statistics>, hash: u64, _: usize) -> foyer::StorageFilterResult {
        lock_probe("AdmissionFilter");
        if let Ok(mut v) = ADMISSIONS.lock() {
            if v.len() < 4096 {
                v.push((hash, NOW.load(Ordering::SeqCst)));
            }
        }
        foyer::StorageFilterResult::Admit
    }
}

// ---------------------------------------------------------------------------------------------
// Values that identify their key and version
// ---------------------------------------------------------------------------------------------

pub const VAL_HEADER: usize = 2 + 8 + 8 + 4;

/// Value bytes = magic, key, version, length, then a filler determined by (key, version, index).
/// `incompressible` selects a xorshift filler (the other one compresses well).
pub fn mkval(key: u64, ver: u64, len: usize, incompressible: bool) -> Vec<u8> {
    let len = len.max(VAL_HEADER);
    let mut v = Vec::with_capacity(len);
    v.extend_from_slice(if incompressible { b"VX" } else { b"VV" });
    v.extend_from_slice(&key.to_le_bytes());
    v.extend_from_slice(&ver.to_le_bytes());
    v.extend_from_slice(&(len as u32).to_le_bytes());
    let mut x = key.wrapping_mul(0x9E37_79B9_7F4A_7C15) ^ ver.wrapping_mul(0xC2B2_AE3D_27D4_EB4F) | 1;
    for i in VAL_HEADER..len {
        if incompressible {
            x ^= x << 13;
            x ^= x >> 7;
            x ^= x << 17;
            v.push(x as u8);
        } else {
            v.push((key as u8).wrapping_mul(31).wrapping_add((ver as u8).wrapping_mul(17)).wrapping_add((i / 64) as u8));
        }
    }
    v
}

#[derive(Debug, Clone, PartialEq, Eq)]
pub enum Decoded {
    Ok { key: u64, ver: u64 },
    Garbage(String),
}

pub fn decode_val(v: &[u8]) -> Decoded {
    if v.len() < VAL_HEADER || (&v[..2] != b"VV" && &v[..2] != b"VX") {
        return Decoded::Garbage(format!("no value header in {} bytes", v.len()));
    }
    let key = u64::from_le_bytes(v[2..10].try_into().unwrap());
    let ver = u64::from_le_bytes(v[10..18].try_into().unwrap());
    let len = u32::from_le_bytes(v[18..22].try_into().unwrap()) as usize;
    if len != v.len() {
        return Decoded::Garbage(format!("value of key {key} v{ver} has {} bytes, header says {len}", v.len()));
    }
    let want = mkval(key, ver, len, &v[..2] == b"VX");
    if want != v {
        return Decoded::Garbage(format!("value of key {key} v{ver} has damaged payload"));
    }
    Decoded::Ok { key, ver }
}

// ---------------------------------------------------------------------------------------------
// Configuration
// ---------------------------------------------------------------------------------------------

#[derive(Debug, Clone, Copy, PartialEq, Eq, Serialize, Deserialize)]
pub enum Admission {
    Admit,
    Reject,
    /// The admission filter answers `Throttled` for every entry (what the built-in IO throttle does while the
    /// device write budget is exceeded): like a rejection, nothing may be written.
    ThrottleAll,
    /// Admits entries whose estimated size is at most this many bytes, rejects larger ones (a newer, larger
    /// version of a key is then refused by the disk tier while the older, smaller one may still be queued).
    UpTo(usize),
}

#[derive(Debug, Clone, PartialEq, Serialize, Deserialize)]
pub struct HybCfg {
    /// Write-on-insertion (else write-on-eviction).
    pub woi: bool,
    pub flush_on_close: bool,
    pub tombstone: bool,
    pub mem_algo: Algo,
    /// Memory capacity in entries (every entry weighs 1).
    pub mem_capacity: usize,
    /// 0 none, 1 zstd, 2 lz4.
    pub compression: u8,
    pub blocks: usize,
    pub block_size: usize,
    pub blob_index_size: usize,
    pub flushers: usize,
    pub reclaimers: usize,
    pub clean_threshold: usize,
    pub indexer_shards: usize,
    pub hash_table: Vec<u64>,
    pub admission: Admission,
    /// Hashes the reinsertion filter admits (empty: none, the default `RejectAll`).
    pub reinsert: Vec<u64>,
    pub fifo_picker_only: bool,
    pub strict_recover: bool,
    pub buffer_pool_size: usize,
    /// No disk engine at all: the hybrid cache runs in in-memory mode (NoopEngine).
    #[serde(default)]
    pub noop_storage: bool,
    /// Exact device capacity in bytes (0: derived from blocks x block size + tombstone log).
    #[serde(default)]
    pub device_capacity: usize,
    /// Submit queue size threshold of the block engine in bytes (0: the default of 16 MiB). Entries are shed
    /// while more than this is queued; with a small value a leak in the accounting shows after a few entries.
    #[serde(default)]
    pub submit_threshold: usize,
    /// Use foyer's own `PsyncIoEngine` (pread/pwrite inside `spawn_blocking` tasks, which the explorer
    /// schedules like any other task) instead of the sim IO engine. No IO log, no fault injection.
    #[serde(default)]
    pub psync: bool,
}

impl HybCfg {
    pub fn small(woi: bool, tombstone: bool) -> Self {
        Self {
            woi,
            flush_on_close: true,
            tombstone,
            mem_algo: Algo::Fifo,
            mem_capacity: 2,
            compression: 0,
            blocks: 8,
            block_size: 16 * 1024,
            blob_index_size: PAGE,
            flushers: 1,
            reclaimers: 1,
            clean_threshold: 1,
            indexer_shards: 1,
            hash_table: vec![],
            admission: Admission::Admit,
            reinsert: vec![],
            fifo_picker_only: true,
            strict_recover: false,
            buffer_pool_size: 64 * 1024,
            noop_storage: false,
            device_capacity: 0,
            submit_threshold: 0,
            psync: false,
        }
    }

    /// The admission filter lets nothing through (rejects or throttles everything).
    pub fn admits_nothing(&self) -> bool {
        matches!(self.admission, Admission::Reject | Admission::ThrottleAll)
    }

    pub fn max_entry_size(&self) -> usize {
        self.block_size - self.blob_index_size
    }

    /// Can a value of `sz` bytes never be written to the disk tier under this configuration (larger than a
    /// block, or refused by the size-based admission filter)? Such an update invalidates the older on-disk
    /// copy like a delete does.
    pub fn unwritable(&self, sz: usize) -> bool {
        sz + 64 > self.max_entry_size() || matches!(self.admission, Admission::UpTo(max) if sz > max)
    }

    pub fn name(&self) -> String {
        format!(
            "{}{}{}{}{}{} mem={}x{} comp={} blocks={}x{}K fl={}",
            if self.psync { "psync-" } else { "" },
            if self.noop_storage { "memonly-" } else { "" },
            if self.woi { "woi" } else { "woe" },
            if self.tombstone { "+tomb" } else { "" },
            if self.flush_on_close { "" } else { "-nofoc" },
            match self.admission {
                Admission::Reject => "+reject".to_string(),
                Admission::ThrottleAll => "+throttle".to_string(),
                Admission::UpTo(n) => format!("+upto{n}"),
                Admission::Admit => String::new(),
            },
            self.mem_algo.short(),
            self.mem_capacity,
            self.compression,
            self.blocks,
            self.block_size / 1024,
            self.flushers
        )
    }
}

// ---------------------------------------------------------------------------------------------
// Operations
// ---------------------------------------------------------------------------------------------

#[derive(Debug, Clone, Copy, PartialEq, Eq, Hash, Serialize, Deserialize)]
pub enum Loc {
    Default,
    InMem,
    OnDisk,
}

#[derive(Debug, Clone, Copy, PartialEq, Eq, Hash, Serialize, Deserialize)]
pub enum HOp {
    /// insert_with_properties; `sz` = value length in bytes.
    Ins { k: u64, sz: usize, loc: Loc },
    /// storage writer insert (disk only).
    SwIns { k: u64, sz: usize },
    Rm { k: u64 },
    Get { k: u64 },
    /// get_or_fetch whose origin resolves at once with a fresh version.
    Gof { k: u64, sz: usize },
    /// get_or_fetch whose origin stays pending until the explorer resolves it (ok or error).
    GofHeld { k: u64, sz: usize },
    Contains { k: u64 },
    /// Insert `n` fresh in-memory-only filler entries: evicts everything else from memory.
    Fill { n: usize },
    Wait,
    Clear,
    Close,
    /// Drop the cache and open it again on the same directory (issue after `Close`).
    Reopen,
    /// memory().evict_all()
    EvictAll,
    /// Make disk lookups answer `Throttled` from now on (test_utils `LoadThrottleSwitch`).
    ThrottleLoads,
}

impl HOp {
    pub fn text(&self) -> String {
        serde_json::to_string(self).unwrap()
    }
    pub fn is_barrier(&self) -> bool {
        matches!(self, HOp::Close | HOp::Reopen)
    }
}

pub fn prog_text(p: &[HOp]) -> String {
    p.iter()
        .map(|o| match o {
            HOp::Ins { k, sz, loc } => format!("ins(k{k},{sz}B{})", match loc {
                Loc::Default => "",
                Loc::InMem => ",inmem",
                Loc::OnDisk => ",ondisk",
            }),
            HOp::SwIns { k, sz } => format!("sw_ins(k{k},{sz}B)"),
            HOp::Rm { k } => format!("rm(k{k})"),
            HOp::Get { k } => format!("get(k{k})"),
            HOp::Gof { k, .. } => format!("gof(k{k})"),
            HOp::GofHeld { k, .. } => format!("gof_held(k{k})"),
            HOp::Contains { k } => format!("contains(k{k})"),
            HOp::Fill { n } => format!("fill({n})"),
            HOp::Wait => "wait".into(),
            HOp::Clear => "clear".into(),
            HOp::Close => "close".into(),
            HOp::Reopen => "reopen".into(),
            HOp::EvictAll => "evict_all".into(),
            HOp::ThrottleLoads => "throttle_loads".into(),
        })
        .collect::<Vec<_>>()
        .join("; ")
}

// ---------------------------------------------------------------------------------------------
// History (what the oracles read)
// ---------------------------------------------------------------------------------------------

#[derive(Debug, Clone, PartialEq, Eq)]
pub enum WKind {
    Insert { loc: Loc, sz: usize, storage_writer: bool },
    FetchInsert { sz: usize },
    Remove,
    Clear,
}

#[derive(Debug, Clone)]
pub struct WriteEv {
    pub op: usize,
    pub key: u64,
    pub ver: u64,
    pub kind: WKind,
    pub invoke: u64,
    pub resp: Option<u64>,
    /// Which open/close generation of the cache the call was made in.
    pub epoch: u32,
    /// Was the key findable in the memory tier right after the call returned?
    pub in_memory_after: Option<bool>,
}

#[derive(Debug, Clone, PartialEq, Eq)]
pub enum LookupRes {
    Miss,
    Hit { key: u64, ver: u64, source: u8 },
    Garbage(String),
    Err(String),
    /// The call never returned.
    Pending,
    /// The caller dropped its future before it resolved.
    Dropped,
}

#[derive(Debug, Clone)]
pub struct LookupEv {
    pub op: usize,
    pub key: u64,
    pub kind: &'static str,
    pub invoke: u64,
    pub resp: Option<u64>,
    /// When the answer was produced (the caller's task was woken with it); `resp` is when the
    /// caller's future was polled and returned it.
    pub answered: Option<u64>,
    pub res: LookupRes,
    pub epoch: u32,
}

#[derive(Debug, Clone)]
pub struct LeaveEv {
    pub t: u64,
    pub reason: u8,
    pub key: u64,
    pub ver: u64,
}

#[derive(Debug, Clone)]
pub struct OriginEv {
    pub op: usize,
    pub key: u64,
    pub first_poll: Option<u64>,
    pub resolved: Option<u64>,
    pub ver: Option<u64>,
    /// The origin future was dropped before it resolved (fetch cancelled or superseded).
    pub dropped: bool,
}

#[derive(Default)]
pub struct History {
    pub writes: Vec<WriteEv>,
    pub lookups: Vec<LookupEv>,
    pub leaves: Vec<LeaveEv>,
    pub origins: Vec<OriginEv>,
    /// (op index, text, invoke, resp) of calls that are neither lookups nor writes (wait, close, ...).
    pub calls: Vec<(usize, &'static str, u64, Option<u64>)>,
    pub next_ver: std::collections::BTreeMap<u64, u64>,
    pub panics: Vec<String>,
    /// User callbacks that ran while the calling thread held a cache lock (C16, see `lock_probe`).
    pub lock_held: Vec<String>,
    /// (hash, time) of entries offered to the disk tier (filled in by Engine TH only).
    pub admissions: Vec<(u64, u64)>,
}

impl History {
    pub(crate) fn new_ver(&mut self, k: u64) -> u64 {
        let e = self.next_ver.entry(k).or_insert(0);
        *e += 1;
        *e
    }
}

struct Listener {
    hist: Arc<Mutex<History>>,
    clock: Arc<AtomicU64>,
}

impl EventListener for Listener {
    type Key = u64;
    type Value = HVal;

    fn on_leave(&self, reason: Event, key: &u64, value: &HVal) {
        lock_probe("Listener");
        let ver = match decode_val(value) {
            Decoded::Ok { ver, .. } => ver,
            _ => 0,
        };
        let reason = match reason {
            Event::Evict => 0,
            Event::Replace => 1,
            Event::Remove => 2,
            Event::Clear => 3,
        };
        self.hist.lock().unwrap().leaves.push(LeaveEv {
            t: self.clock.load(Ordering::SeqCst),
            reason,
            key: *key,
            ver,
        });
    }
}

// ---------------------------------------------------------------------------------------------
// World
// ---------------------------------------------------------------------------------------------

#[derive(Debug, Clone, Copy, PartialEq, Eq, Serialize, Deserialize)]
pub enum BasePolicy {
    /// tasks, then IO, then the next client call.
    Eager,
    /// tasks, then client calls, IO only when nothing else can run.
    LazyIo,
    /// client calls before background tasks, IO last.
    ClientFirst,
    /// tasks first; then client calls and single IO completions take turns (one device request
    /// completes between two client calls): entries are caught half-way through the write path.
    Alternate,
}

#[derive(Debug, Clone, Default, Serialize, Deserialize)]
pub struct RunOpts {
    /// Number of IO errors the explorer may inject.
    pub io_faults: usize,
    /// Only writes may fail (reads always succeed).
    pub fault_writes_only: bool,
    /// After the program: quiesce and read every universe key (FIFO, no choices).
    pub final_reads: bool,
    /// After that: close, reopen, read every universe key.
    pub final_restart: bool,
    pub universe: Vec<u64>,
    pub horizon: usize,
    /// Make `Store::load` answer `Throttled` (test_utils `LoadThrottleSwitch`).
    pub throttle_loads: bool,
    /// Number of times the explorer may cancel a fetch task or drop a waiting caller.
    #[serde(default)]
    pub cancels: usize,
    /// Calls made (each followed by quiescence, FIFO schedule) before the explored program starts:
    /// puts the cache into a non-initial state, e.g. an entry that lives on disk only.
    #[serde(default)]
    pub prologue: Vec<HOp>,
}

#[derive(Debug, Clone)]
pub enum Action {
    Poll(sim::TaskId),
    Complete(usize),
    Fail(usize),
    Client,
    Fire(sim::TimerId),
    Resolve(usize, bool),
    /// Cancel the spawned fetch task (as a runtime shutdown / abort would).
    CancelFetch(sim::TaskId),
    /// Drop the future of a waiting caller.
    DropCaller(usize),
}

struct Gate {
    op: usize,
    key: u64,
    sz: usize,
    tx: Option<mea::oneshot::Sender<bool>>,
}

enum ClientResult {
    Lookup(LookupRes),
    Unit(Result<(), String>),
}

struct ClientTask {
    op: usize,
    handle: sim::JoinHandle<ClientResult>,
    done: bool,
    what: &'static str,
    lookup_idx: Option<usize>,
    write_idx: Option<usize>,
    call_idx: Option<usize>,
}

pub struct World {
    pub cfg: HybCfg,
    pub dir: PathBuf,
    pub io: SimIo,
    pub cache: Option<HC>,
    pub hist: Arc<Mutex<History>>,
    pub clock: Arc<AtomicU64>,
    pub load_throttle: LoadThrottleSwitch,
    pub epoch: u32,
    clients: Vec<ClientTask>,
    gates: Arc<Mutex<Vec<Gate>>>,
    pub filler_next: u64,
    pub steps: usize,
    pub io_reorders: u64,
    pub faults_injected: usize,
    pub stalled: Option<String>,
    pub opens: u32,
    pub polls_of_origin: Arc<AtomicUsize>,
    /// The last non-task action was a client call (for `BasePolicy::Alternate`).
    pub last_was_client: bool,
    pub cancels_done: usize,
}

static DIR_SEQ: AtomicU64 = AtomicU64::new(0);

pub fn scratch_root() -> PathBuf {
    let base = if std::path::Path::new("/dev/shm").is_dir() {
        PathBuf::from("/dev/shm")
    } else {
        std::env::temp_dir()
    };
    base.join(format!("foyer-verif-w{}", std::process::id()))
}

pub fn cleanup_scratch() {
    let _ = std::fs::remove_dir_all(scratch_root());
}

fn eviction_config(a: &Algo) -> foyer::EvictionConfig {
    match *a {
        Algo::Fifo => foyer::FifoConfig {}.into(),
        Algo::Lru { ratio } => foyer::LruConfig {
            high_priority_pool_ratio: ratio,
        }
        .into(),
        Algo::Sieve => foyer::SieveConfig {}.into(),
        Algo::S3Fifo { small, ghost, threshold } => foyer::S3FifoConfig {
            small_queue_capacity_ratio: small,
            ghost_queue_capacity_ratio: ghost,
            small_to_main_freq_threshold: threshold,
        }
        .into(),
        Algo::Lfu { window, protected } => foyer::LfuConfig {
            window_capacity_ratio: window,
            protected_capacity_ratio: protected,
            cmsketch_eps: 0.001,
            cmsketch_confidence: 0.9,
        }
        .into(),
        Algo::LfuSketch { window, protected, eps } => foyer::LfuConfig {
            window_capacity_ratio: window,
            protected_capacity_ratio: protected,
            cmsketch_eps: eps,
            cmsketch_confidence: 0.9,
        }
        .into(),
    }
}

impl World {
    pub fn new(cfg: HybCfg) -> Self {
        let n = DIR_SEQ.fetch_add(1, Ordering::SeqCst);
        let dir = scratch_root().join(format!("d{}", n % 4));
        let _ = std::fs::remove_dir_all(&dir);
        std::fs::create_dir_all(&dir).expect("create scratch dir");
        Self {
            cfg,
            dir,
            io: SimIo::new(),
            cache: None,
            hist: Arc::new(Mutex::new(History::default())),
            clock: Arc::new(AtomicU64::new(0)),
            load_throttle: LoadThrottleSwitch::default(),
            epoch: 0,
            clients: vec![],
            gates: Arc::new(Mutex::new(vec![])),
            filler_next: 1000,
            steps: 0,
            io_reorders: 0,
            faults_injected: 0,
            stalled: None,
            opens: 0,
            polls_of_origin: Arc::new(AtomicUsize::new(0)),
            last_was_client: false,
            cancels_done: 0,
        }
    }

    pub fn now(&self) -> u64 {
        self.clock.load(Ordering::SeqCst)
    }

    pub(crate) fn tick(&self) -> u64 {
        let t = self.clock.fetch_add(1, Ordering::SeqCst) + 1;
        NOW.store(t, Ordering::SeqCst);
        self.io.set_clock(t);
        sim::set_time(t);
        t
    }

    pub fn device_capacity(&self) -> usize {
        if self.cfg.device_capacity > 0 {
            return self.cfg.device_capacity;
        }
        let blocks = self.cfg.blocks * self.cfg.block_size;
        if self.cfg.tombstone {
            // The tombstone log takes ceil((capacity / PAGE) / 256) pages of the device.
            let mut cap = blocks;
            loop {
                let slots = cap / PAGE;
                let pages = slots.div_ceil(256);
                if cap - pages * PAGE >= blocks {
                    return cap;
                }
                cap += PAGE;
            }
        } else {
            blocks
        }
    }

    /// Build (or rebuild) the cache on `self.dir`, driving the runtime FIFO with IO auto-completion.
    pub fn open(&mut self) -> Result<(), String> {
        let cfg = self.cfg.clone();
        let dir = self.dir.clone();
        let io = self.io.clone();
        let hist = self.hist.clone();
        let clock = self.clock.clone();
        let switch = self.load_throttle.clone();
        let capacity = self.device_capacity();
        self.io.set_auto(true);
        let fut = async move {
            let device = FsDeviceBuilder::new(&dir).with_capacity(capacity).build()?;
            let mut engine = BlockEngineConfig::new(device)
                .with_block_size(cfg.block_size)
                .with_blob_index_size(cfg.blob_index_size)
                .with_indexer_shards(cfg.indexer_shards)
                .with_flushers(cfg.flushers)
                .with_reclaimers(cfg.reclaimers)
                .with_clean_block_threshold(cfg.clean_threshold)
                .with_buffer_pool_size(cfg.buffer_pool_size)
                .with_recover_concurrency(2)
                .with_tombstone_log(cfg.tombstone)
                // verif hook: the public `with_compression` of the store builder is not forwarded to the engine
                .with_compression(match cfg.compression {
                    1 => Compression::Zstd,
                    2 => Compression::Lz4,
                    _ => Compression::None,
                });
            if cfg.submit_threshold > 0 {
                engine = engine.with_submit_queue_size_threshold(cfg.submit_threshold);
            }
            if cfg.fifo_picker_only {
                engine = engine.with_eviction_pickers(vec![Box::new(FifoPicker::new(0.1))]);
            }
            if cfg.admission == Admission::Reject {
                engine = engine.with_admission_filter(StorageFilter::new().with_condition(RejectAll));
            } else if cfg.admission == Admission::ThrottleAll {
                engine = engine.with_admission_filter(StorageFilter::new().with_condition(ThrottleAllFilter));
            } else if let Admission::UpTo(max) = cfg.admission {
                engine = engine.with_admission_filter(StorageFilter::new().with_condition(UpToFilter(max)));
            } else {
                // Always admits; only probes the lock monitor.
                engine = engine.with_admission_filter(StorageFilter::new().with_condition(ProbeFilter));
            }
            if !cfg.reinsert.is_empty() {
                engine = engine.with_reinsertion_filter(StorageFilter::new().with_condition(Biased::new(cfg.reinsert.clone())));
            }
            let builder = HybridCacheBuilder::new()
                .with_policy(if cfg.woi {
                    HybridCachePolicy::WriteOnInsertion
                } else {
                    HybridCachePolicy::WriteOnEviction
                })
                .with_flush_on_close(cfg.flush_on_close)
                .with_event_listener(Arc::new(Listener { hist, clock }))
                .memory(cfg.mem_capacity)
                .with_shards(1)
                .with_eviction_config(eviction_config(&cfg.mem_algo))
                .with_hash_builder(VHash {
                    table: Arc::new(cfg.hash_table.clone()),
                })
                .with_weighter(|_, _| {
                    lock_probe("Weighter");
                    1
                })
                .storage()
                .with_io_engine_config(if cfg.psync {
                    foyer::PsyncIoEngineConfig::new().into()
                } else {
                    Box::new(SimIoConfig { io }) as Box<dyn foyer::IoEngineConfig>
                });
            let builder = if cfg.noop_storage {
                builder
            } else {
                builder.with_engine_config(engine)
            };
            let builder = builder
                .with_compression(match cfg.compression {
                    1 => Compression::Zstd,
                    2 => Compression::Lz4,
                    _ => Compression::None,
                })
                .with_recover_mode(if cfg.strict_recover {
                    RecoverMode::Strict
                } else {
                    RecoverMode::Quiet
                });
            let _ = switch;
            builder.build().await
        };
        let h = sim::spawn_labelled("open".to_string(), fut);
        let r = sim::block_on_handle(h, 1_000_000);
        self.io.set_auto(false);
        self.opens += 1;
        match r {
            Some(Ok(Ok(c))) => {
                self.cache = Some(c);
                Ok(())
            }
            Some(Ok(Err(e))) => Err(format!("open failed: {e}")),
            Some(Err(e)) => Err(format!("open task failed: {e}; {:?}", sim::take_panics())),
            None => Err("open stalled".to_string()),
        }
    }

    /// Drop the cache object and let everything settle (FIFO, IO auto-completing).
    pub fn drop_cache(&mut self) {
        self.io.set_auto(true);
        for id in self.io.pending() {
            self.io.complete(id);
        }
        self.cache = None;
        sim::run_until_stalled(1_000_000);
        for id in self.io.pending() {
            self.io.complete(id);
        }
        sim::run_until_stalled(1_000_000);
        self.io.set_auto(false);
    }

    pub(crate) fn props(loc: Loc) -> HybridCacheProperties {
        HybridCacheProperties::default().with_location(match loc {
            Loc::Default => Location::Default,
            Loc::InMem => Location::InMem,
            Loc::OnDisk => Location::OnDisk,
        })
    }

    fn clients_pending(&self) -> bool {
        self.clients.iter().any(|c| !c.done)
    }

    /// Can the next program operation be issued now?
    pub fn client_enabled(&self, op: &HOp) -> bool {
        if op.is_barrier() {
            !self.clients_pending()
        } else {
            true
        }
    }

    fn spawn_client(
        &mut self,
        op: usize,
        what: &'static str,
        lookup_idx: Option<usize>,
        write_idx: Option<usize>,
        call_idx: Option<usize>,
        fut: impl std::future::Future<Output = ClientResult> + Send + 'static,
    ) {
        let handle = sim::spawn_labelled(format!("client:{what}#{op}"), fut);
        // A caller that awaits an async call polls it once right away: the call's synchronous prefix
        // (e.g. `wait()` submitting its markers) runs at issue time and the waker is registered, so the
        // moment the answer is produced is observable as the task's wake-up time. Later polls are
        // explorer-scheduled.
        let _ = lookup_idx;
        sim::poll(handle.id());
        self.clients.push(ClientTask {
            op,
            handle,
            done: false,
            what,
            lookup_idx,
            write_idx,
            call_idx,
        });
    }

    pub(crate) fn lookup_result(r: Result<Option<HE>, foyer::Error>, want_key: u64) -> LookupRes {
        match r {
            Ok(None) => LookupRes::Miss,
            Ok(Some(e)) => {
                let source = match e.source() {
                    Source::Outer => 0,
                    Source::Memory => 1,
                    Source::Disk => 2,
                };
                let res = match decode_val(e.value()) {
                    Decoded::Ok { key, ver } => {
                        if *e.key() != key {
                            LookupRes::Garbage(format!("entry key {} carries the value of key {key}", e.key()))
                        } else {
                            LookupRes::Hit { key, ver, source }
                        }
                    }
                    Decoded::Garbage(g) => LookupRes::Garbage(g),
                };
                let _ = want_key;
                res
            }
            Err(e) => LookupRes::Err(format!("{:?}", e.kind())),
        }
    }

    /// Issue program operation `idx`.
    pub fn issue(&mut self, idx: usize, op: &HOp) {
        let t = self.tick();
        let epoch = self.epoch;
        let Some(cache) = self.cache.clone() else {
            // Calls on a closed-and-dropped cache are not part of any history.
            if matches!(op, HOp::Reopen) {
                self.reopen();
            }
            return;
        };
        match *op {
            HOp::Ins { k, sz, loc } => {
                let ver = self.hist.lock().unwrap().new_ver(k);
                let val = HVal(mkval(k, ver, sz, false));
                let e = cache.insert_with_properties(k, val, Self::props(loc));
                drop(e);
                let in_mem = cache.memory().contains(&k);
                self.hist.lock().unwrap().writes.push(WriteEv {
                    in_memory_after: Some(in_mem),
                    op: idx,
                    key: k,
                    ver,
                    kind: WKind::Insert {
                        loc,
                        sz,
                        storage_writer: false,
                    },
                    invoke: t,
                    resp: Some(t),
                    epoch,
                });
            }
            HOp::SwIns { k, sz } => {
                let ver = self.hist.lock().unwrap().new_ver(k);
                let val = HVal(mkval(k, ver, sz, false));
                let e = cache.storage_writer(k).insert(val);
                // `None`: the admission filter (or the in-memory-only mode) refused the entry; nothing was
                // inserted anywhere, so the call is no write of the history.
                let refused = e.is_none();
                drop(e);
                if refused {
                    return;
                }
                let in_mem = cache.memory().contains(&k);
                self.hist.lock().unwrap().writes.push(WriteEv {
                    in_memory_after: Some(in_mem),
                    op: idx,
                    key: k,
                    ver,
                    kind: WKind::Insert {
                        loc: Loc::OnDisk,
                        sz,
                        storage_writer: true,
                    },
                    invoke: t,
                    resp: Some(t),
                    epoch,
                });
            }
            HOp::Rm { k } => {
                cache.remove(&k);
                self.hist.lock().unwrap().writes.push(WriteEv {
                    in_memory_after: None,
                    op: idx,
                    key: k,
                    ver: 0,
                    kind: WKind::Remove,
                    invoke: t,
                    resp: Some(t),
                    epoch,
                });
            }
            HOp::Fill { n } => {
                for _ in 0..n {
                    let k = self.filler_next;
                    self.filler_next += 1;
                    let e = cache.insert_with_properties(k, HVal(mkval(k, 1, 24, false)), Self::props(Loc::InMem));
                    drop(e);
                }
            }
            HOp::EvictAll => {
                cache.memory().evict_all();
            }
            HOp::ThrottleLoads => {
                cache.storage().load_throttle_switch().throttle();
            }
            HOp::Contains { k } => {
                let c = cache.contains(&k);
                let mut h = self.hist.lock().unwrap();
                h.lookups.push(LookupEv {
                    op: idx,
                    key: k,
                    kind: "contains",
                    invoke: t,
                    resp: Some(t),
                    answered: Some(t),
                    res: if c {
                        LookupRes::Hit {
                            key: k,
                            ver: u64::MAX,
                            source: 9,
                        }
                    } else {
                        LookupRes::Miss
                    },
                    epoch,
                });
            }
            HOp::Get { k } => {
                let li = {
                    let mut h = self.hist.lock().unwrap();
                    h.lookups.push(LookupEv {
                        op: idx,
                        key: k,
                        kind: "get",
                        invoke: t,
                        resp: None,
                        answered: None,
                        res: LookupRes::Pending,
                        epoch,
                    });
                    h.lookups.len() - 1
                };
                // The synchronous part of the call (memory lookup, in-flight registration) runs now.
                let call = cache.get(&k);
                let fut = async move { ClientResult::Lookup(Self::lookup_result(call.await, k)) };
                self.spawn_client(idx, "get", Some(li), None, None, fut);
            }
            HOp::Gof { k, sz } | HOp::GofHeld { k, sz } => {
                let held = matches!(op, HOp::GofHeld { .. });
                let (li, oi) = {
                    let mut h = self.hist.lock().unwrap();
                    h.lookups.push(LookupEv {
                        op: idx,
                        key: k,
                        kind: "gof",
                        invoke: t,
                        resp: None,
                        answered: None,
                        res: LookupRes::Pending,
                        epoch,
                    });
                    h.origins.push(OriginEv {
                        op: idx,
                        key: k,
                        first_poll: None,
                        resolved: None,
                        ver: None,
                        dropped: false,
                    });
                    (h.lookups.len() - 1, h.origins.len() - 1)
                };
                let hist = self.hist.clone();
                let clock = self.clock.clone();
                let gates = self.gates.clone();
                let polls = self.polls_of_origin.clone();
                let call = {
                    let origin = {
                        let hist = hist.clone();
                        let clock = clock.clone();
                        async move {
                            // Dropping the origin future before it resolved ends its execution.
                            struct Ended {
                                hist: Arc<Mutex<History>>,
                                clock: Arc<AtomicU64>,
                                oi: usize,
                            }
                            impl Drop for Ended {
                                fn drop(&mut self) {
                                    let mut h = self.hist.lock().unwrap();
                                    if h.origins[self.oi].resolved.is_none() {
                                        h.origins[self.oi].resolved = Some(self.clock.load(Ordering::SeqCst));
                                        h.origins[self.oi].dropped = true;
                                    }
                                }
                            }
                            let _ended = Ended {
                                hist: hist.clone(),
                                clock: clock.clone(),
                                oi,
                            };
                            // First poll of the origin future.
                            {
                                polls.fetch_add(1, Ordering::SeqCst);
                                let mut h = hist.lock().unwrap();
                                h.origins[oi].first_poll = Some(clock.load(Ordering::SeqCst));
                            }
                            let ok = if held {
                                let (tx, rx) = mea::oneshot::channel::<bool>();
                                gates.lock().unwrap().push(Gate {
                                    op: idx,
                                    key: k,
                                    sz,
                                    tx: Some(tx),
                                });
                                rx.await.unwrap_or(false)
                            } else {
                                true
                            };
                            let now = clock.load(Ordering::SeqCst);
                            let mut h = hist.lock().unwrap();
                            h.origins[oi].resolved = Some(now);
                            if ok {
                                let ver = h.new_ver(k);
                                h.origins[oi].ver = Some(ver);
                                h.writes.push(WriteEv {
                                    in_memory_after: None,
                                    op: idx,
                                    key: k,
                                    ver,
                                    kind: WKind::FetchInsert { sz },
                                    invoke: now,
                                    resp: None,
                                    epoch,
                                });
                                Ok::<HVal, anyhow::Error>(HVal(mkval(k, ver, sz, false)))
                            } else {
                                Err(anyhow::anyhow!("origin failed"))
                            }
                        }
                    };
                    // The synchronous part of the call runs now; the origin future is only created here.
                    cache.get_or_fetch(&k, || origin)
                };
                let fut = async move { ClientResult::Lookup(Self::lookup_result(call.await.map(Some), k)) };
                self.spawn_client(idx, "gof", Some(li), None, None, fut);
            }
            HOp::Wait => {
                let ci = {
                    let mut h = self.hist.lock().unwrap();
                    h.calls.push((idx, "wait", t, None));
                    h.calls.len() - 1
                };
                let hist = self.hist.clone();
                let clock = self.clock.clone();
                let fut = async move {
                    // `wait()` submits its markers when it is first polled: that is when it is "issued".
                    hist.lock().unwrap().calls[ci].2 = clock.load(Ordering::SeqCst);
                    cache.storage().wait().await;
                    ClientResult::Unit(Ok(()))
                };
                self.spawn_client(idx, "wait", None, None, Some(ci), fut);
            }
            HOp::Clear => {
                let (wi, ci) = {
                    let mut h = self.hist.lock().unwrap();
                    h.writes.push(WriteEv {
                        in_memory_after: None,
                        op: idx,
                        key: u64::MAX,
                        ver: 0,
                        kind: WKind::Clear,
                        invoke: t,
                        resp: None,
                        epoch,
                    });
                    h.calls.push((idx, "clear", t, None));
                    (h.writes.len() - 1, h.calls.len() - 1)
                };
                let fut = async move { ClientResult::Unit(cache.clear().await.map_err(|e| format!("{e}"))) };
                self.spawn_client(idx, "clear", None, Some(wi), Some(ci), fut);
            }
            HOp::Close => {
                let ci = {
                    let mut h = self.hist.lock().unwrap();
                    h.calls.push((idx, "close", t, None));
                    h.calls.len() - 1
                };
                let hist = self.hist.clone();
                let clock = self.clock.clone();
                let fut = async move {
                    // close() starts doing anything when its future is first polled.
                    hist.lock().unwrap().calls[ci].2 = clock.load(Ordering::SeqCst);
                    ClientResult::Unit(cache.close().await.map_err(|e| format!("{e}")))
                };
                self.spawn_client(idx, "close", None, None, Some(ci), fut);
            }
            HOp::Reopen => {
                drop(cache);
                self.reopen();
            }
        }
    }

    /// Simulate a process crash: every task (flusher, reclaimer, pending IO) is dropped without being
    /// run; the partition files stay exactly as they are. Then open again on the same directory.
    pub fn crash_and_reopen(&mut self) -> Result<(), String> {
        self.clients.clear();
        self.gates.lock().unwrap().clear();
        let cache = self.cache.take();
        drop(cache);
        sim::reset();
        self.epoch += 1;
        self.open()
    }

    pub fn graceful_restart(&mut self) {
        self.quiesce();
        if let Some(c) = self.cache.clone() {
            let t = self.tick();
            let ci = {
                let mut h = self.hist.lock().unwrap();
                h.calls.push((usize::MAX, "close", t, None));
                h.calls.len() - 1
            };
            let fut = async move { ClientResult::Unit(c.close().await.map_err(|e| format!("{e}"))) };
            self.spawn_client(usize::MAX, "close", None, None, Some(ci), fut);
            self.quiesce();
        }
        self.reopen();
    }

    fn reopen(&mut self) {
        self.drop_cache();
        self.epoch += 1;
        if let Err(e) = self.open() {
            self.hist.lock().unwrap().panics.push(format!("reopen: {e}"));
        }
    }

    /// Collect finished client calls (stamp their response time).
    pub fn reap_clients(&mut self) {
        let now = self.now();
        let waker = sim::noop_waker();
        let mut cx = std::task::Context::from_waker(&waker);
        for c in self.clients.iter_mut() {
            if c.done {
                continue;
            }
            if let std::task::Poll::Ready(r) = std::pin::Pin::new(&mut c.handle).poll(&mut cx) {
                c.done = true;
                let mut h = self.hist.lock().unwrap();
                match r {
                    Ok(ClientResult::Lookup(res)) => {
                        if let Some(li) = c.lookup_idx {
                            let (woken, polls) = sim::wake_info(c.handle.id());
                            h.lookups[li].resp = Some(now);
                            h.lookups[li].answered = if polls <= 1 { Some(h.lookups[li].invoke) } else { woken.or(Some(now)) };
                            h.lookups[li].res = res;
                        }
                        // A fetch-insert performed on behalf of this call is complete now.
                        let op = c.op;
                        for w in h.writes.iter_mut() {
                            if w.op == op && w.resp.is_none() {
                                w.resp = Some(now);
                            }
                        }
                    }
                    Ok(ClientResult::Unit(res)) => {
                        if let Some(ci) = c.call_idx {
                            // The call was answered when its task was woken (the acknowledgement was sent),
                            // not when the caller got around to polling it.
                            let (woken, polls) = sim::wake_info(c.handle.id());
                            h.calls[ci].3 = Some(if polls > 1 { woken.unwrap_or(now).min(now) } else { now });
                        }
                        if let Some(wi) = c.write_idx {
                            h.writes[wi].resp = Some(now);
                        }
                        if let Err(e) = res {
                            h.panics.push(format!("{} returned an error: {e}", c.what));
                        }
                    }
                    Err(e) => {
                        h.panics.push(format!("client call {} (#{}) failed: {e}", c.what, c.op));
                        if let Some(li) = c.lookup_idx {
                            h.lookups[li].resp = Some(now);
                            h.lookups[li].res = LookupRes::Err(format!("client task failed: {e}"));
                        }
                    }
                }
            }
        }
    }

    pub fn pending_client_calls(&self) -> Vec<String> {
        self.clients.iter().filter(|c| !c.done).map(|c| format!("{}#{}", c.what, c.op)).collect()
    }

    fn open_gates(&self) -> Vec<usize> {
        self.gates
            .lock()
            .unwrap()
            .iter()
            .enumerate()
            .filter(|(_, g)| g.tx.is_some())
            .map(|(i, _)| i)
            .collect()
    }

    fn resolve_gate(&self, i: usize, ok: bool) {
        let tx = self.gates.lock().unwrap()[i].tx.take();
        if let Some(tx) = tx {
            let _ = tx.send(ok);
        }
    }

    /// Enabled actions in the canonical order of `policy`.
    pub fn actions(&self, policy: BasePolicy, next_op: Option<&HOp>, opts: &RunOpts) -> Vec<Action> {
        let tasks: Vec<Action> = sim::ready().into_iter().map(Action::Poll).collect();
        let mut ios: Vec<Action> = vec![];
        let pend = self.io.pending();
        for id in pend.iter() {
            ios.push(Action::Complete(*id));
        }
        if self.faults_injected < opts.io_faults {
            for id in pend.iter() {
                if opts.fault_writes_only && self.io.rec(*id).kind != IoKind::Write {
                    continue;
                }
                ios.push(Action::Fail(*id));
            }
        }
        let mut client: Vec<Action> = vec![];
        if let Some(op) = next_op {
            if self.client_enabled(op) {
                client.push(Action::Client);
            }
        }
        let mut gates: Vec<Action> = vec![];
        for g in self.open_gates() {
            gates.push(Action::Resolve(g, true));
            gates.push(Action::Resolve(g, false));
        }
        let mut timers: Vec<Action> = sim::pending_timers().into_iter().map(Action::Fire).collect();
        if self.cancels_done < opts.cancels {
            // Cancellation is an alternative, never a default: listed last.
            for (id, label) in sim::live_task_labels() {
                if label.contains("RawFetch") {
                    timers.push(Action::CancelFetch(id));
                }
            }
            for (i, c) in self.clients.iter().enumerate() {
                if !c.done && c.lookup_idx.is_some() {
                    timers.push(Action::DropCaller(i));
                }
            }
        }
        let mut v = vec![];
        match policy {
            BasePolicy::Eager => {
                v.extend(tasks);
                v.extend(ios);
                v.extend(client);
                v.extend(gates);
                v.extend(timers);
            }
            BasePolicy::LazyIo => {
                v.extend(tasks);
                v.extend(client);
                v.extend(gates);
                v.extend(ios);
                v.extend(timers);
            }
            BasePolicy::ClientFirst => {
                v.extend(client);
                v.extend(tasks);
                v.extend(gates);
                v.extend(ios);
                v.extend(timers);
            }
            BasePolicy::Alternate => {
                v.extend(tasks);
                if self.last_was_client {
                    v.extend(ios);
                    v.extend(client);
                } else {
                    v.extend(client);
                    v.extend(ios);
                }
                v.extend(gates);
                v.extend(timers);
            }
        }
        v
    }

    pub fn describe_action(&self, a: &Action) -> String {
        match a {
            Action::Poll(t) => format!("poll {}#{t}", sim::task_label(*t)),
            Action::Complete(i) => {
                let r = self.io.rec(*i);
                format!("complete io{} {:?} p{} @{}+{}", i, r.kind, r.part, r.offset, r.len)
            }
            Action::Fail(i) => {
                let r = self.io.rec(*i);
                format!("FAIL io{} {:?} p{} @{}+{}", i, r.kind, r.part, r.offset, r.len)
            }
            Action::Client => "client".to_string(),
            Action::Fire(t) => format!("fire timer {t}"),
            Action::Resolve(g, ok) => format!("origin#{g} resolves {}", if *ok { "ok" } else { "ERR" }),
            Action::CancelFetch(t) => format!("CANCEL fetch task {}#{t}", sim::task_label(*t)),
            Action::DropCaller(i) => format!("DROP caller {}#{}", self.clients[*i].what, self.clients[*i].op),
        }
    }

    pub fn perform(&mut self, a: &Action, pc: &mut usize, prog: &[HOp]) {
        self.tick();
        match a {
            Action::Poll(t) => {
                sim::poll(*t);
            }
            Action::Complete(i) => {
                if self.io.pending().first() != Some(i) {
                    self.io_reorders += 1;
                }
                self.io.complete(*i);
                self.last_was_client = false;
            }
            Action::Fail(i) => {
                self.faults_injected += 1;
                self.io.fail(*i);
                self.last_was_client = false;
            }
            Action::Client => {
                self.last_was_client = true;
                let idx = *pc;
                *pc += 1;
                self.issue(idx, &prog[idx]);
            }
            Action::Fire(t) => sim::fire(*t),
            Action::Resolve(g, ok) => self.resolve_gate(*g, *ok),
            Action::CancelFetch(t) => {
                self.cancels_done += 1;
                sim::cancel(*t);
            }
            Action::DropCaller(i) => {
                self.cancels_done += 1;
                let id = self.clients[*i].handle.id();
                sim::cancel(id);
                self.clients[*i].done = true;
                if let Some(li) = self.clients[*i].lookup_idx {
                    let now = self.now();
                    let mut h = self.hist.lock().unwrap();
                    h.lookups[li].resp = Some(now);
                    h.lookups[li].res = LookupRes::Dropped;
                }
            }
        }
        self.hist.lock().unwrap().panics.extend(sim::take_panics());
        self.hist.lock().unwrap().lock_held.extend(lock_probe_take());
        self.reap_clients();
        self.steps += 1;
    }

    /// Run everything that is enabled, in FIFO order without choices, until nothing is enabled.
    pub fn quiesce(&mut self) {
        let mut guard = 0;
        loop {
            guard += 1;
            if guard > 200_000 {
                self.stalled = Some("quiesce horizon exceeded".into());
                return;
            }
            if let Some(t) = sim::ready().first() {
                self.tick();
                self.steps += 1;
                sim::poll(*t);
                self.reap_clients();
                continue;
            }
            if let Some(i) = self.io.pending().first() {
                self.tick();
                self.io.complete(*i);
                continue;
            }
            if let Some(g) = self.open_gates().first() {
                self.tick();
                self.resolve_gate(*g, true);
                continue;
            }
            if let Some(t) = sim::pending_timers().first() {
                self.tick();
                sim::fire(*t);
                continue;
            }
            break;
        }
        self.hist.lock().unwrap().panics.extend(sim::take_panics());
        self.hist.lock().unwrap().lock_held.extend(lock_probe_take());
        self.reap_clients();
    }

    /// Look every key up once (FIFO). Results are appended to the history with kind "final".
    pub fn read_all(&mut self, keys: &[u64], kind: &'static str) {
        let Some(cache) = self.cache.clone() else { return };
        for k in keys {
            let t = self.tick();
            let li = {
                let mut h = self.hist.lock().unwrap();
                h.lookups.push(LookupEv {
                    op: usize::MAX,
                    key: *k,
                    kind,
                    invoke: t,
                    resp: None,
                    answered: None,
                    res: LookupRes::Pending,
                    epoch: self.epoch,
                });
                h.lookups.len() - 1
            };
            let c = cache.clone();
            let k = *k;
            let fut = async move { ClientResult::Lookup(Self::lookup_result(c.get(&k).await, k)) };
            self.spawn_client(usize::MAX, "final-get", Some(li), None, None, fut);
            self.quiesce();
        }
    }

    pub fn io_log(&self) -> Vec<IoRec> {
        self.io.log()
    }
}

impl Drop for World {
    fn drop(&mut self) {
        self.cache = None;
        self.clients.clear();
        self.gates.lock().unwrap().clear();
        sim::reset();
        let _ = std::fs::remove_dir_all(&self.dir);
    }
}

// ---------------------------------------------------------------------------------------------
// One execution
// ---------------------------------------------------------------------------------------------

pub struct RunOut {
    pub world: World,
    pub completed: bool,
    pub trace: Vec<String>,
}

/// Execute `prog` under `policy`, taking the explorer's choices from `ctx`.
pub fn run_program(cfg: &HybCfg, prog: &[HOp], policy: BasePolicy, opts: &RunOpts, ctx: &mut Ctx) -> RunOut {
    run_program_with(cfg, prog, policy, opts, ctx, &mut |_| {})
}

/// Like [`run_program`], calling `hook` after every explorer step (monitors).
pub fn run_program_with(
    cfg: &HybCfg,
    prog: &[HOp],
    policy: BasePolicy,
    opts: &RunOpts,
    ctx: &mut Ctx,
    hook: &mut dyn FnMut(&World),
) -> RunOut {
    sim::reset();
    let _ = lock_probe_take();
    let mut w = World::new(cfg.clone());
    let mut trace = vec![];
    if let Err(e) = w.open() {
        w.hist.lock().unwrap().panics.push(e);
        return RunOut {
            world: w,
            completed: false,
            trace,
        };
    }
    for (i, op) in opts.prologue.iter().enumerate() {
        w.issue(100_000 + i, op);
        w.quiesce();
    }
    w.steps = 0;
    let horizon = if opts.horizon == 0 { 4000 } else { opts.horizon };
    let mut pc = 0usize;
    loop {
        let acts = w.actions(policy, prog.get(pc), opts);
        if acts.is_empty() {
            break;
        }
        if w.steps >= horizon {
            w.stalled = Some(format!("horizon of {horizon} steps exceeded"));
            break;
        }
        let c = ctx.choose(acts.len(), false);
        if ctx.trace {
            trace.push(format!("[{}] {}  (of {})", w.steps, w.describe_action(&acts[c]), acts.len()));
        }
        w.perform(&acts[c], &mut pc, prog);
        hook(&w);
    }
    if pc < prog.len() && w.stalled.is_none() {
        w.stalled = Some(format!(
            "nothing enabled but program operation {} ({:?}) cannot be issued; pending calls {:?}",
            pc,
            prog[pc],
            w.pending_client_calls()
        ));
    }
    if w.clients_pending() && w.stalled.is_none() {
        w.stalled = Some(format!(
            "nothing is enabled but calls {:?} never returned",
            w.pending_client_calls()
        ));
    }
    let completed = w.stalled.is_none();
    if completed && opts.final_reads {
        w.quiesce();
        let keys = opts.universe.clone();
        w.read_all(&keys, "final");
    }
    if completed && opts.final_restart {
        w.quiesce();
        if let Some(c) = w.cache.clone() {
            let t = w.tick();
            let ci = {
                let mut h = w.hist.lock().unwrap();
                h.calls.push((usize::MAX, "close", t, None));
                h.calls.len() - 1
            };
            let fut = async move { ClientResult::Unit(c.close().await.map_err(|e| format!("{e}"))) };
            w.spawn_client(usize::MAX, "close", None, None, Some(ci), fut);
            w.quiesce();
        }
        w.reopen();
        let keys = opts.universe.clone();
        w.read_all(&keys, "after-restart");
    }
    RunOut {
        world: w,
        completed,
        trace,
    }
}

pub fn io_summary(log: &[IoRec]) -> Value {
    let writes = log.iter().filter(|r| r.kind == IoKind::Write).count();
    let reads = log.iter().filter(|r| r.kind == IoKind::Read).count();
    let failed = log.iter().filter(|r| r.outcome == IoOutcome::Failed).count();
    json!({"writes": writes, "reads": reads, "failed": failed})
}
