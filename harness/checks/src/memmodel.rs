//! Reference models for the in-memory cache (oracles W, L, A of DESIGN.md §3).
//!
//! * `Ledger` — victim-agnostic weight / residency / handle ledger. It *follows* the victims the
//!   implementation reports and checks that they were legal; it never predicts a victim.
//! * `Policy` implementations — the five eviction algorithms re-implemented with plain `VecDeque`s
//!   from the crate documentation and the cited papers; used to *predict* victims (C14).
//!
//! Deliberately boring. Records are identified by the unique id the driver assigns to every insert.

use std::collections::{BTreeMap, HashSet, VecDeque};

use datasketches::countmin::CountMinSketch;

pub type Id = u64;

/// Record ids are tagged inside state keys so that they can be renamed canonically (by first
/// occurrence) — two histories reaching the same state assign different ids.
pub const ID_TAG: u64 = 1 << 62;

pub fn idv(id: Id) -> u64 {
    ID_TAG | id
}

/// Rename tagged ids by first occurrence.
pub fn canonicalize(key: &mut [u64]) {
    let mut map: Vec<(u64, u64)> = vec![];
    for v in key.iter_mut() {
        if *v & ID_TAG != 0 {
            let n = match map.iter().find(|(a, _)| *a == *v) {
                Some((_, n)) => *n,
                None => {
                    let n = map.len() as u64;
                    map.push((*v, n));
                    n
                }
            };
            *v = ID_TAG | n;
        }
    }
}

#[derive(Debug, Clone, Copy, PartialEq, Eq, Hash)]
pub struct RecInfo {
    pub id: Id,
    pub key: u64,
    pub hash: u64,
    pub weight: usize,
    pub low: bool,
}

// ---------------------------------------------------------------------------------------------
// Eviction policies (oracle A)
// ---------------------------------------------------------------------------------------------

pub trait Policy: Send {
    fn push(&mut self, r: RecInfo);
    fn pop(&mut self) -> Option<Id>;
    /// Remove a record that is in the container (pinned or not).
    fn remove(&mut self, id: Id);
    /// A lookup returned the record. `contained`: the record is currently in the container.
    fn acquire(&mut self, id: Id, hash: u64, contained: bool);
    /// The last outstanding handle was dropped.
    fn release(&mut self, id: Id, contained: bool);
    fn update(&mut self, capacity: usize);
    fn clear(&mut self);
    /// Is the record in the container but protected from `pop` (LRU pin)?
    fn pinned(&self, id: Id) -> bool;
    fn contains(&self, id: Id) -> bool;
    /// Complete internal state, for canonical state keys.
    fn state_key(&self, out: &mut Vec<u64>);
    fn box_clone(&self) -> Box<dyn Policy>;
}

fn dq_remove(q: &mut VecDeque<RecInfo>, id: Id) -> Option<RecInfo> {
    let pos = q.iter().position(|r| r.id == id)?;
    q.remove(pos)
}

// ---- FIFO ----

#[derive(Debug, Clone, Default)]
pub struct FifoRef {
    queue: VecDeque<RecInfo>,
}

impl Policy for FifoRef {
    fn push(&mut self, r: RecInfo) {
        self.queue.push_back(r);
    }
    fn pop(&mut self) -> Option<Id> {
        self.queue.pop_front().map(|r| r.id)
    }
    fn remove(&mut self, id: Id) {
        dq_remove(&mut self.queue, id).expect("fifo ref: remove of unknown record");
    }
    fn acquire(&mut self, _: Id, _: u64, _: bool) {}
    fn release(&mut self, _: Id, _: bool) {}
    fn update(&mut self, _: usize) {}
    fn clear(&mut self) {
        self.queue.clear();
    }
    fn pinned(&self, _: Id) -> bool {
        false
    }
    fn contains(&self, id: Id) -> bool {
        self.queue.iter().any(|r| r.id == id)
    }
    fn state_key(&self, out: &mut Vec<u64>) {
        out.push(0xF1F0);
        out.extend(self.queue.iter().map(|r| idv(r.id)));
    }
    fn box_clone(&self) -> Box<dyn Policy> {
        Box::new(self.clone())
    }
}

// ---- LRU with high-priority pool and pinning ----

#[derive(Debug, Clone)]
pub struct LruRef {
    ratio: f64,
    low: VecDeque<RecInfo>,
    high: VecDeque<RecInfo>,
    /// Pinned records and whether they belong to the high-priority pool.
    pin: Vec<(RecInfo, bool)>,
    high_weight: usize,
    high_cap: usize,
}

impl LruRef {
    pub fn new(capacity: usize, ratio: f64) -> Self {
        Self {
            ratio,
            low: VecDeque::new(),
            high: VecDeque::new(),
            pin: vec![],
            high_weight: 0,
            high_cap: (capacity as f64 * ratio) as usize,
        }
    }

    fn overflow(&mut self) {
        while self.high_weight > self.high_cap {
            let r = self.high.pop_front().expect("lru ref: high pool weight without entries");
            self.high_weight -= r.weight;
            self.low.push_back(r);
        }
    }
}

impl Policy for LruRef {
    fn push(&mut self, r: RecInfo) {
        if r.low {
            self.low.push_back(r);
        } else {
            self.high_weight += r.weight;
            self.high.push_back(r);
            self.overflow();
        }
    }

    fn pop(&mut self) -> Option<Id> {
        if let Some(r) = self.low.pop_front() {
            return Some(r.id);
        }
        let r = self.high.pop_front()?;
        self.high_weight -= r.weight;
        Some(r.id)
    }

    fn remove(&mut self, id: Id) {
        if let Some(pos) = self.pin.iter().position(|(r, _)| r.id == id) {
            self.pin.remove(pos);
            return;
        }
        if let Some(r) = dq_remove(&mut self.high, id) {
            self.high_weight -= r.weight;
            return;
        }
        dq_remove(&mut self.low, id).expect("lru ref: remove of unknown record");
    }

    fn acquire(&mut self, id: Id, _: u64, contained: bool) {
        if !contained || self.pin.iter().any(|(r, _)| r.id == id) {
            return;
        }
        if let Some(r) = dq_remove(&mut self.high, id) {
            self.high_weight -= r.weight;
            self.pin.push((r, true));
        } else if let Some(r) = dq_remove(&mut self.low, id) {
            self.pin.push((r, false));
        } else {
            panic!("lru ref: acquire of unknown record");
        }
    }

    fn release(&mut self, id: Id, contained: bool) {
        if !contained {
            return;
        }
        let Some(pos) = self.pin.iter().position(|(r, _)| r.id == id) else {
            return;
        };
        let (r, in_high) = self.pin.remove(pos);
        if in_high {
            self.high_weight += r.weight;
            self.high.push_back(r);
            self.overflow();
        } else {
            self.low.push_back(r);
        }
    }

    fn update(&mut self, capacity: usize) {
        self.high_cap = (capacity as f64 * self.ratio) as usize;
        self.overflow();
    }

    fn clear(&mut self) {
        self.low.clear();
        self.high.clear();
        self.pin.clear();
        self.high_weight = 0;
    }

    fn pinned(&self, id: Id) -> bool {
        self.pin.iter().any(|(r, _)| r.id == id)
    }

    fn contains(&self, id: Id) -> bool {
        self.pinned(id) || self.low.iter().any(|r| r.id == id) || self.high.iter().any(|r| r.id == id)
    }

    fn state_key(&self, out: &mut Vec<u64>) {
        out.push(0x1A0);
        out.extend(self.low.iter().map(|r| idv(r.id)));
        out.push(0x1A1);
        out.extend(self.high.iter().map(|r| idv(r.id)));
        out.push(0x1A2);
        // The pin set is unordered; it is keyed in the ledger's record order (by key) instead.
        let mut p: Vec<(u64, u64, u64)> = self.pin.iter().map(|(r, h)| (r.key, r.id, *h as u64)).collect();
        p.sort();
        for (_, a, b) in p {
            out.push(idv(a));
            out.push(b);
        }
        out.push(self.high_cap as u64);
    }

    fn box_clone(&self) -> Box<dyn Policy> {
        Box::new(self.clone())
    }
}

// ---- SIEVE ----

#[derive(Debug, Clone, Default)]
pub struct SieveRef {
    /// front = oldest.
    queue: VecDeque<(RecInfo, bool)>,
    hand: Option<Id>,
    /// Visited marks of records that are not (any more) in the queue are irrelevant.
    _pad: (),
}

impl Policy for SieveRef {
    fn push(&mut self, r: RecInfo) {
        self.queue.push_back((r, false));
    }

    fn pop(&mut self) -> Option<Id> {
        if self.queue.is_empty() {
            return None;
        }
        let mut i = match self.hand {
            Some(h) => self.queue.iter().position(|(r, _)| r.id == h).expect("sieve ref: hand not in queue"),
            None => 0,
        };
        loop {
            if !self.queue[i].1 {
                break;
            }
            self.queue[i].1 = false;
            i = if i + 1 == self.queue.len() { 0 } else { i + 1 };
        }
        self.hand = self.queue.get(i + 1).map(|(r, _)| r.id);
        let (r, _) = self.queue.remove(i).unwrap();
        Some(r.id)
    }

    fn remove(&mut self, id: Id) {
        if self.hand == Some(id) {
            self.hand = None;
        }
        let pos = self
            .queue
            .iter()
            .position(|(r, _)| r.id == id)
            .expect("sieve ref: remove of unknown record");
        self.queue.remove(pos);
    }

    fn acquire(&mut self, id: Id, _: u64, _: bool) {
        if let Some(e) = self.queue.iter_mut().find(|(r, _)| r.id == id) {
            e.1 = true;
        }
    }

    fn release(&mut self, _: Id, _: bool) {}
    fn update(&mut self, _: usize) {}

    fn clear(&mut self) {
        self.queue.clear();
        // NOTE: the implementation's default `clear` pops everything, which leaves the hand at None.
        self.hand = None;
    }

    fn pinned(&self, _: Id) -> bool {
        false
    }

    fn contains(&self, id: Id) -> bool {
        self.queue.iter().any(|(r, _)| r.id == id)
    }

    fn state_key(&self, out: &mut Vec<u64>) {
        out.push(0x51E);
        for (r, v) in self.queue.iter() {
            out.push(idv(r.id));
            out.push(*v as u64);
        }
        out.push(self.hand.map(idv).unwrap_or(0));
    }

    fn box_clone(&self) -> Box<dyn Policy> {
        Box::new(self.clone())
    }
}

// ---- S3-FIFO ----

#[derive(Debug, Clone)]
pub struct S3FifoRef {
    small_ratio: f64,
    ghost_ratio: f64,
    threshold: u8,
    small: VecDeque<(RecInfo, u8)>,
    main: VecDeque<(RecInfo, u8)>,
    small_weight: usize,
    small_cap: usize,
    // Ghost queue of hashes. The implementation keeps a *set* of hashes beside the queue and removes
    // the hash from the set when any copy of it leaves the queue; neither the crate documentation nor
    // the paper says how duplicates behave, so the reference follows the implementation here.
    ghost: VecDeque<(u64, usize)>,
    ghost_set: HashSet<u64>,
    ghost_weight: usize,
    ghost_cap: usize,
}

impl S3FifoRef {
    pub fn new(capacity: usize, small_ratio: f64, ghost_ratio: f64, threshold: u8) -> Self {
        Self {
            small_ratio,
            ghost_ratio,
            threshold: threshold.min(3),
            small: VecDeque::new(),
            main: VecDeque::new(),
            small_weight: 0,
            small_cap: (capacity as f64 * small_ratio) as usize,
            ghost: VecDeque::new(),
            ghost_set: HashSet::new(),
            ghost_weight: 0,
            ghost_cap: (capacity as f64 * ghost_ratio) as usize,
        }
    }

    fn ghost_pop(&mut self) {
        if let Some((h, w)) = self.ghost.pop_front() {
            self.ghost_weight -= w;
            self.ghost_set.remove(&h);
        }
    }

    fn ghost_push(&mut self, hash: u64, weight: usize) {
        if self.ghost_cap == 0 {
            return;
        }
        while self.ghost_weight + weight > self.ghost_cap && self.ghost_weight > 0 {
            self.ghost_pop();
        }
        self.ghost.push_back((hash, weight));
        self.ghost_set.insert(hash);
        self.ghost_weight += weight;
    }

    fn evict_small(&mut self) -> Option<Id> {
        while let Some((r, f)) = self.small.pop_front() {
            self.small_weight -= r.weight;
            if f >= self.threshold {
                self.main.push_back((r, f));
            } else {
                self.ghost_push(r.hash, r.weight);
                return Some(r.id);
            }
        }
        None
    }

    fn evict_main(&mut self) -> Option<Id> {
        while let Some((r, f)) = self.main.pop_front() {
            if f > 0 {
                self.main.push_back((r, f - 1));
            } else {
                return Some(r.id);
            }
        }
        None
    }
}

impl Policy for S3FifoRef {
    fn push(&mut self, r: RecInfo) {
        if self.ghost_set.contains(&r.hash) {
            self.main.push_back((r, 0));
        } else {
            self.small_weight += r.weight;
            self.small.push_back((r, 0));
        }
    }

    fn pop(&mut self) -> Option<Id> {
        if self.small_weight > self.small_cap {
            if let Some(id) = self.evict_small() {
                return Some(id);
            }
        }
        if let Some(id) = self.evict_main() {
            return Some(id);
        }
        // Nothing in main: evict from small regardless of frequency (not remembered by the ghost queue).
        let (r, _) = self.small.pop_front()?;
        self.small_weight -= r.weight;
        Some(r.id)
    }

    fn remove(&mut self, id: Id) {
        if let Some(pos) = self.small.iter().position(|(r, _)| r.id == id) {
            let (r, _) = self.small.remove(pos).unwrap();
            self.small_weight -= r.weight;
            return;
        }
        let pos = self
            .main
            .iter()
            .position(|(r, _)| r.id == id)
            .expect("s3fifo ref: remove of unknown record");
        self.main.remove(pos);
    }

    fn acquire(&mut self, id: Id, _: u64, _: bool) {
        for q in [&mut self.small, &mut self.main] {
            if let Some(e) = q.iter_mut().find(|(r, _)| r.id == id) {
                e.1 = (e.1 + 1).min(3);
            }
        }
    }

    fn release(&mut self, _: Id, _: bool) {}

    fn update(&mut self, capacity: usize) {
        self.ghost_cap = (capacity as f64 * self.ghost_ratio) as usize;
        self.small_cap = (capacity as f64 * self.small_ratio) as usize;
        if self.ghost_cap == 0 {
            return;
        }
        while self.ghost_weight > self.ghost_cap && self.ghost_weight > 0 {
            self.ghost_pop();
        }
    }

    fn clear(&mut self) {
        // The implementation clears by popping, which feeds the ghost queue exactly like evictions do.
        while self.pop().is_some() {}
    }

    fn pinned(&self, _: Id) -> bool {
        false
    }

    fn contains(&self, id: Id) -> bool {
        self.small.iter().any(|(r, _)| r.id == id) || self.main.iter().any(|(r, _)| r.id == id)
    }

    fn state_key(&self, out: &mut Vec<u64>) {
        out.push(0x53F);
        for (r, f) in self.small.iter() {
            out.push(idv(r.id));
            out.push(*f as u64);
        }
        out.push(0x53E);
        for (r, f) in self.main.iter() {
            out.push(idv(r.id));
            out.push(*f as u64);
        }
        out.push(0x53D);
        for (h, w) in self.ghost.iter() {
            out.push(*h);
            out.push(*w as u64);
        }
        let mut s: Vec<u64> = self.ghost_set.iter().copied().collect();
        s.sort();
        out.push(0x53C);
        out.extend(s);
        out.push(self.small_cap as u64);
        out.push(self.ghost_cap as u64);
    }

    fn box_clone(&self) -> Box<dyn Policy> {
        Box::new(self.clone())
    }
}

// ---- w-TinyLFU ----

struct CountMinKey(u64);

impl std::hash::Hash for CountMinKey {
    fn hash<H: std::hash::Hasher>(&self, state: &mut H) {
        state.write_u64(self.0);
    }
}

#[derive(Debug, Clone, Copy, PartialEq, Eq)]
enum LfuQ {
    Window,
    Probation,
    Protected,
}

pub struct LfuRef {
    window_ratio: f64,
    protected_ratio: f64,
    eps: f64,
    confidence: f64,
    window: VecDeque<RecInfo>,
    probation: VecDeque<RecInfo>,
    protected: VecDeque<RecInfo>,
    window_weight: usize,
    protected_weight: usize,
    window_cap: usize,
    protected_cap: usize,
    /// Same sketch, same parameters as the implementation: estimates are identical by construction;
    /// what is checked is the *use* of the estimates.
    sketch: CountMinSketch<u16>,
    /// Log of sketch updates (hashes), to rebuild the sketch on clone and to key the state.
    updates: Vec<u64>,
    step: usize,
    decay: usize,
}

impl LfuRef {
    pub fn new(capacity: usize, window_ratio: f64, protected_ratio: f64, eps: f64, confidence: f64) -> Self {
        let num_hashes = CountMinSketch::<u16>::suggest_num_hashes(confidence);
        let num_buckets = CountMinSketch::<u16>::suggest_num_buckets(eps);
        Self {
            window_ratio,
            protected_ratio,
            eps,
            confidence,
            window: VecDeque::new(),
            probation: VecDeque::new(),
            protected: VecDeque::new(),
            window_weight: 0,
            protected_weight: 0,
            window_cap: (capacity as f64 * window_ratio) as usize,
            protected_cap: (capacity as f64 * protected_ratio) as usize,
            sketch: CountMinSketch::<u16>::new(num_hashes, num_buckets),
            updates: vec![],
            step: 0,
            decay: num_buckets as usize,
        }
    }

    fn touch_freq(&mut self, hash: u64) {
        self.sketch.update(CountMinKey(hash));
        self.updates.push(hash);
        self.step += 1;
        if self.step >= self.decay {
            self.step >>= 1;
            self.sketch.halve();
            self.updates.push(u64::MAX);
        }
    }

    fn est(&self, hash: u64) -> u16 {
        self.sketch.estimate(CountMinKey(hash))
    }

    fn queue_of(&self, id: Id) -> Option<LfuQ> {
        if self.window.iter().any(|r| r.id == id) {
            Some(LfuQ::Window)
        } else if self.probation.iter().any(|r| r.id == id) {
            Some(LfuQ::Probation)
        } else if self.protected.iter().any(|r| r.id == id) {
            Some(LfuQ::Protected)
        } else {
            None
        }
    }
}

impl Policy for LfuRef {
    fn push(&mut self, r: RecInfo) {
        self.window_weight += r.weight;
        self.touch_freq(r.hash);
        self.window.push_back(r);
        while self.window_weight > self.window_cap {
            let r = self.window.pop_front().expect("lfu ref: window weight without entries");
            self.window_weight -= r.weight;
            self.probation.push_back(r);
        }
    }

    fn pop(&mut self) -> Option<Id> {
        let w = self.window.front().copied();
        let p = self.probation.front().copied();
        let victim = match (w, p) {
            (None, None) => None,
            (None, Some(_)) => self.probation.pop_front(),
            (Some(_), None) => {
                let r = self.window.pop_front();
                if let Some(r) = &r {
                    self.window_weight -= r.weight;
                }
                r
            }
            (Some(w), Some(p)) => {
                if self.est(w.hash) < self.est(p.hash) {
                    self.window_weight -= w.weight;
                    self.window.pop_front()
                } else {
                    self.probation.pop_front()
                }
            }
        };
        match victim {
            Some(r) => Some(r.id),
            None => {
                let r = self.protected.pop_front()?;
                self.protected_weight -= r.weight;
                Some(r.id)
            }
        }
    }

    fn remove(&mut self, id: Id) {
        match self.queue_of(id).expect("lfu ref: remove of unknown record") {
            LfuQ::Window => {
                let r = dq_remove(&mut self.window, id).unwrap();
                self.window_weight -= r.weight;
            }
            LfuQ::Probation => {
                dq_remove(&mut self.probation, id).unwrap();
            }
            LfuQ::Protected => {
                let r = dq_remove(&mut self.protected, id).unwrap();
                self.protected_weight -= r.weight;
            }
        }
    }

    fn acquire(&mut self, id: Id, hash: u64, contained: bool) {
        self.touch_freq(hash);
        if !contained {
            return;
        }
        match self.queue_of(id).expect("lfu ref: acquire of unknown record") {
            LfuQ::Window => {
                let r = dq_remove(&mut self.window, id).unwrap();
                self.window.push_back(r);
            }
            LfuQ::Probation => {
                let r = dq_remove(&mut self.probation, id).unwrap();
                self.protected_weight += r.weight;
                self.protected.push_back(r);
                while self.protected_weight > self.protected_cap {
                    let r = self.protected.pop_front().expect("lfu ref: protected weight without entries");
                    self.protected_weight -= r.weight;
                    self.probation.push_back(r);
                }
            }
            LfuQ::Protected => {
                let r = dq_remove(&mut self.protected, id).unwrap();
                self.protected.push_back(r);
            }
        }
    }

    fn release(&mut self, _: Id, _: bool) {}

    fn update(&mut self, capacity: usize) {
        self.window_cap = (capacity as f64 * self.window_ratio) as usize;
        self.protected_cap = (capacity as f64 * self.protected_ratio) as usize;
    }

    fn clear(&mut self) {
        while self.pop().is_some() {}
    }

    fn pinned(&self, _: Id) -> bool {
        false
    }

    fn contains(&self, id: Id) -> bool {
        self.queue_of(id).is_some()
    }

    fn state_key(&self, out: &mut Vec<u64>) {
        out.push(0x1F0);
        out.extend(self.window.iter().map(|r| idv(r.id)));
        out.push(0x1F1);
        out.extend(self.probation.iter().map(|r| idv(r.id)));
        out.push(0x1F2);
        out.extend(self.protected.iter().map(|r| idv(r.id)));
        out.push(0x1F3);
        // The sketch is a function of the multiset of updates between decays; key it by the sorted
        // update counts per hash since the last decay marker plus everything before it verbatim.
        let cut = self.updates.iter().rposition(|h| *h == u64::MAX).map(|p| p + 1).unwrap_or(0);
        out.extend(self.updates[..cut].iter().copied());
        let mut tail: Vec<u64> = self.updates[cut..].to_vec();
        tail.sort();
        out.extend(tail);
        out.push(self.window_cap as u64);
        out.push(self.protected_cap as u64);
    }

    fn box_clone(&self) -> Box<dyn Policy> {
        let mut n = LfuRef::new(0, self.window_ratio, self.protected_ratio, self.eps, self.confidence);
        n.window = self.window.clone();
        n.probation = self.probation.clone();
        n.protected = self.protected.clone();
        n.window_weight = self.window_weight;
        n.protected_weight = self.protected_weight;
        n.window_cap = self.window_cap;
        n.protected_cap = self.protected_cap;
        for h in self.updates.iter() {
            if *h == u64::MAX {
                n.sketch.halve();
            } else {
                n.sketch.update(CountMinKey(*h));
            }
        }
        n.updates = self.updates.clone();
        n.step = self.step;
        n.decay = self.decay;
        Box::new(n)
    }
}

// ---------------------------------------------------------------------------------------------
// Algorithm configurations
// ---------------------------------------------------------------------------------------------

#[derive(Debug, Clone, Copy, PartialEq, serde::Serialize, serde::Deserialize)]
pub enum Algo {
    Fifo,
    Lru { ratio: f64 },
    Sieve,
    S3Fifo { small: f64, ghost: f64, threshold: u8 },
    Lfu { window: f64, protected: f64 },
    /// w-TinyLFU with a small count-min sketch (`cmsketch_eps`): the sketch ages (halves) after a few dozen
    /// accesses instead of a few thousand.
    LfuSketch { window: f64, protected: f64, eps: f64 },
}

impl Algo {
    pub fn name(&self) -> String {
        match self {
            Algo::Fifo => "fifo".into(),
            Algo::Lru { ratio } => format!("lru({ratio})"),
            Algo::Sieve => "sieve".into(),
            Algo::S3Fifo { small, ghost, threshold } => format!("s3fifo({small},{ghost},{threshold})"),
            Algo::Lfu { window, protected } => format!("lfu({window},{protected})"),
            Algo::LfuSketch { window, protected, eps } => format!("lfu({window},{protected},eps={eps})"),
        }
    }

    pub fn short(&self) -> &'static str {
        match self {
            Algo::Fifo => "fifo",
            Algo::Lru { .. } => "lru",
            Algo::Sieve => "sieve",
            Algo::S3Fifo { .. } => "s3fifo",
            Algo::Lfu { .. } | Algo::LfuSketch { .. } => "lfu",
        }
    }

    pub fn is_lru(&self) -> bool {
        matches!(self, Algo::Lru { .. })
    }

    pub fn policy(&self, shard_capacity: usize) -> Box<dyn Policy> {
        match *self {
            Algo::Fifo => Box::new(FifoRef::default()),
            Algo::Lru { ratio } => Box::new(LruRef::new(shard_capacity, ratio)),
            Algo::Sieve => Box::new(SieveRef::default()),
            Algo::S3Fifo { small, ghost, threshold } => {
                Box::new(S3FifoRef::new(shard_capacity, small, ghost, threshold))
            }
            Algo::Lfu { window, protected } => Box::new(LfuRef::new(shard_capacity, window, protected, 0.001, 0.9)),
            Algo::LfuSketch { window, protected, eps } => Box::new(LfuRef::new(shard_capacity, window, protected, eps, 0.9)),
        }
    }

    pub fn defaults() -> Vec<Algo> {
        vec![
            Algo::Fifo,
            Algo::Lru { ratio: 0.9 },
            Algo::Sieve,
            Algo::S3Fifo {
                small: 0.1,
                ghost: 1.0,
                threshold: 1,
            },
            Algo::Lfu {
                window: 0.1,
                protected: 0.8,
            },
        ]
    }
}

// ---------------------------------------------------------------------------------------------
// Ledger (oracles W and L, handle bookkeeping for C18)
// ---------------------------------------------------------------------------------------------

#[derive(Debug, Clone, Copy, PartialEq, Eq, Hash, PartialOrd, Ord)]
pub enum Reason {
    Evict,
    Replace,
    Remove,
    Clear,
}

#[derive(Debug, Clone)]
pub struct LRec {
    pub info: RecInfo,
    pub shard: usize,
    /// Disk-only entry: never findable, not counted.
    pub phantom: bool,
    /// A lookup can find it.
    pub indexed: bool,
    /// Outstanding handles.
    pub refs: usize,
    /// Looked up (not merely inserted) and still held since: LRU must not evict it.
    pub pinned_by_lookup: bool,
    /// Leave notifications seen so far.
    pub left: Vec<Reason>,
    /// Offers to the pipe seen so far.
    pub piped: usize,
}

#[derive(Debug, Clone)]
pub struct ShardLedger {
    pub capacity: usize,
    pub usage: usize,
    pub entries: usize,
    /// key -> id of the findable record.
    pub index: BTreeMap<u64, Id>,
}

#[derive(Debug, Clone)]
pub struct Ledger {
    pub shards: Vec<ShardLedger>,
    pub recs: BTreeMap<Id, LRec>,
    pub lru: bool,
}

pub fn shard_capacity_for(total: usize, shards: usize, index: usize) -> usize {
    total / shards + usize::from(index < total % shards)
}

/// One oracle complaint: (clause, message).
pub type Complaint = (&'static str, String);

impl Ledger {
    pub fn new(capacity: usize, shards: usize, lru: bool) -> Self {
        Self {
            shards: (0..shards)
                .map(|i| ShardLedger {
                    capacity: shard_capacity_for(capacity, shards, i),
                    usage: 0,
                    entries: 0,
                    index: BTreeMap::new(),
                })
                .collect(),
            recs: BTreeMap::new(),
            lru,
        }
    }

    pub fn usage(&self) -> usize {
        self.shards.iter().map(|s| s.usage).sum()
    }

    pub fn entries(&self) -> usize {
        self.shards.iter().map(|s| s.entries).sum()
    }

    pub fn find(&self, shard: usize, key: u64) -> Option<Id> {
        self.shards[shard].index.get(&key).copied()
    }

    /// Records of `shard` that `pop` may legally return now.
    pub fn evictable(&self, shard: usize) -> Vec<Id> {
        self.shards[shard]
            .index
            .values()
            .copied()
            .filter(|id| !(self.lru && self.recs[id].pinned_by_lookup))
            .collect()
    }

    /// Apply a run of evictions towards `target` usage in `shard`, following the victims the
    /// implementation reported. Returns complaints about illegal victims or a wrong stop.
    pub fn follow_evictions(&mut self, shard: usize, target: usize, victims: &[Id], out: &mut Vec<Complaint>) {
        for v in victims {
            let usage = self.shards[shard].usage;
            if usage <= target {
                out.push((
                    "W.over-evict",
                    format!("record {v} evicted from shard {shard} although usage {usage} <= target {target}"),
                ));
            }
            let Some(rec) = self.recs.get(v) else {
                out.push(("L.unknown-victim", format!("evicted record {v} was never inserted")));
                continue;
            };
            if !rec.indexed || rec.shard != shard {
                out.push((
                    "L.victim-not-resident",
                    format!("evicted record {v} (key {}) is not resident in shard {shard}", rec.info.key),
                ));
                continue;
            }
            if self.lru && rec.pinned_by_lookup {
                out.push((
                    "P.pinned-evicted",
                    format!(
                        "LRU evicted record {v} (key {}) although it was looked up and is still held ({} refs)",
                        rec.info.key, rec.refs
                    ),
                ));
            }
            let (key, weight) = (rec.info.key, rec.info.weight);
            let s = &mut self.shards[shard];
            s.index.remove(&key);
            s.usage -= weight;
            s.entries -= 1;
            let rec = self.recs.get_mut(v).unwrap();
            rec.indexed = false;
        }
        let usage = self.shards[shard].usage;
        if usage > target && !self.evictable(shard).is_empty() {
            out.push((
                "W.under-evict",
                format!(
                    "eviction in shard {shard} stopped at usage {usage} > target {target} although records {:?} are evictable",
                    self.evictable(shard)
                ),
            ));
        }
    }

    pub fn state_key(&self, out: &mut Vec<u64>) {
        for s in self.shards.iter() {
            out.push(0xAAAA);
            out.push(s.capacity as u64);
            out.push(s.usage as u64);
            for (k, id) in s.index.iter() {
                out.push(*k);
                out.push(idv(*id));
            }
        }
        out.push(0xBBBB);
        // Records that still matter, in a history-independent order (by key, then residency, then id).
        let mut live: Vec<(&Id, &LRec)> = self.recs.iter().filter(|(_, r)| r.indexed || r.refs > 0).collect();
        live.sort_by_key(|(id, r)| (r.info.key, !r.indexed, **id));
        for (id, r) in live {
            {
                out.push(idv(*id));
                out.push(r.info.key);
                out.push(r.info.weight as u64);
                out.push(r.refs as u64);
                out.push(r.pinned_by_lookup as u64 | (r.phantom as u64) << 1 | (r.indexed as u64) << 2 | (r.info.low as u64) << 3);
            }
        }
    }
}
