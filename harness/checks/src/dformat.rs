//! Oracle D — an independent reader of foyer's on-disk format (no foyer code; only the xxhash64,
//! zstd and lz4 libraries). Layout, as documented by the writer side:
//!
//! block      = blob*                         (blobs back to back from offset 0)
//! blob       = index page(s) | entry data    (index: `blob_index_size` bytes)
//! index      = u64 xxhash64(bytes[8..]) | u32 count | count * slot
//! slot       = u64 hash | u64 sequence | u32 offset-in-blob | u32 len          (24 bytes, big endian)
//! entry      = header | value bytes | key bytes, padded to a page
//! header     = u32 key_len | u32 value_len | u64 hash | u64 sequence | u64 xxhash64(value|key) | u32 magic|compression
//! tombstone  = u64 hash | u64 sequence                                          (16 bytes, 256 per page)

use twox_hash::XxHash64;

pub const PAGE: usize = 4096;
pub const HEADER_LEN: usize = 36;
pub const SLOT_LEN: usize = 24;
pub const ENTRY_MAGIC: u32 = 0x9703_2700;

fn be32(b: &[u8]) -> u32 {
    u32::from_be_bytes(b[..4].try_into().unwrap())
}
fn be64(b: &[u8]) -> u64 {
    u64::from_be_bytes(b[..8].try_into().unwrap())
}

pub fn align_up(v: usize) -> usize {
    v.div_ceil(PAGE) * PAGE
}

#[derive(Debug, Clone, PartialEq, Eq)]
pub struct DHeader {
    pub key_len: u32,
    pub value_len: u32,
    pub hash: u64,
    pub sequence: u64,
    pub checksum: u64,
    pub compression: u8,
}

impl DHeader {
    pub fn total_len(&self) -> usize {
        HEADER_LEN + self.key_len as usize + self.value_len as usize
    }
}

pub fn parse_header(b: &[u8]) -> Option<DHeader> {
    if b.len() < HEADER_LEN {
        return None;
    }
    let v = be32(&b[32..36]);
    if v & 0xFFFF_FF00 != ENTRY_MAGIC {
        return None;
    }
    let compression = (v & 0xFF) as u8;
    if compression > 2 {
        return None;
    }
    Some(DHeader {
        key_len: be32(&b[0..4]),
        value_len: be32(&b[4..8]),
        hash: be64(&b[8..16]),
        sequence: be64(&b[16..24]),
        checksum: be64(&b[24..32]),
        compression,
    })
}

#[derive(Debug, Clone)]
pub struct DEntry {
    /// Offset of the header within the parsed buffer.
    pub offset: usize,
    pub header: DHeader,
    pub checksum_ok: bool,
    /// Decoded key (u64 little endian) if the key bytes have that shape.
    pub key: Option<u64>,
    /// Decoded `Vec<u8>` value (usize length prefix + bytes), decompressed if necessary.
    pub value: Option<Vec<u8>>,
}

pub fn decode_entry(buf: &[u8], offset: usize) -> Option<DEntry> {
    let header = parse_header(&buf[offset..])?;
    let total = header.total_len();
    if offset + total > buf.len() {
        return Some(DEntry {
            offset,
            header,
            checksum_ok: false,
            key: None,
            value: None,
        });
    }
    let body = &buf[offset + HEADER_LEN..offset + total];
    let checksum_ok = XxHash64::oneshot(0, body) == header.checksum;
    let vbytes = &body[..header.value_len as usize];
    let kbytes = &body[header.value_len as usize..];
    let key = if kbytes.len() == 8 {
        Some(u64::from_le_bytes(kbytes.try_into().unwrap()))
    } else {
        None
    };
    let raw: Option<Vec<u8>> = match header.compression {
        0 => Some(vbytes.to_vec()),
        1 => zstd::stream::decode_all(vbytes).ok(),
        2 => {
            use std::io::Read;
            let mut out = vec![];
            match lz4::Decoder::new(vbytes) {
                Ok(mut d) => {
                    // The writer does not emit an end mark; read what is there.
                    let mut chunk = [0u8; 4096];
                    loop {
                        match d.read(&mut chunk) {
                            Ok(0) => break,
                            Ok(n) => out.extend_from_slice(&chunk[..n]),
                            Err(_) => break,
                        }
                    }
                    Some(out)
                }
                Err(_) => None,
            }
        }
        _ => None,
    };
    let value = raw.and_then(|r| {
        if r.len() < 8 {
            return None;
        }
        let len = u64::from_le_bytes(r[..8].try_into().unwrap()) as usize;
        if r.len() < 8 + len {
            return None;
        }
        Some(r[8..8 + len].to_vec())
    });
    Some(DEntry {
        offset,
        header,
        checksum_ok,
        key,
        value,
    })
}

/// Entries found in a buffer of entry data (a data write, or the data part of a blob): headers sit
/// at page-aligned offsets, each entry is padded to a page.
pub fn entries_in(buf: &[u8]) -> Vec<DEntry> {
    let mut out = vec![];
    let mut off = 0;
    while off + HEADER_LEN <= buf.len() {
        match decode_entry(buf, off) {
            Some(e) => {
                let step = align_up(e.header.total_len()).max(PAGE);
                out.push(e);
                off += step;
            }
            None => off += PAGE,
        }
    }
    out
}

#[derive(Debug, Clone, PartialEq, Eq)]
pub struct DSlot {
    pub hash: u64,
    pub sequence: u64,
    pub offset: u32,
    pub len: u32,
}

/// Parse a blob index page; `None` if the checksum does not match or the count is impossible.
pub fn parse_index(buf: &[u8]) -> Option<Vec<DSlot>> {
    if buf.len() < 12 {
        return None;
    }
    if XxHash64::oneshot(0, &buf[8..]) != be64(&buf[0..8]) {
        return None;
    }
    let count = be32(&buf[8..12]) as usize;
    if 12 + count * SLOT_LEN > buf.len() {
        return None;
    }
    Some(
        (0..count)
            .map(|i| {
                let s = &buf[12 + i * SLOT_LEN..12 + (i + 1) * SLOT_LEN];
                DSlot {
                    hash: be64(&s[0..8]),
                    sequence: be64(&s[8..16]),
                    offset: be32(&s[16..20]),
                    len: be32(&s[20..24]),
                }
            })
            .collect(),
    )
}

pub fn looks_like_index(buf: &[u8]) -> bool {
    parse_index(buf).is_some()
}

#[derive(Debug, Clone)]
pub struct DBlob {
    pub offset: usize,
    pub slots: Vec<DSlot>,
}

/// Walk the blobs of a block image the way the documented format prescribes: read the index at the
/// current offset; stop at the first unreadable one; the next blob starts after the last entry.
pub fn scan_block(img: &[u8], blob_index_size: usize) -> Vec<DBlob> {
    let mut out = vec![];
    let mut off = 0usize;
    while off + blob_index_size <= img.len() {
        let Some(slots) = parse_index(&img[off..off + blob_index_size]) else {
            break;
        };
        let step = match slots.last() {
            Some(s) => s.offset as usize + align_up(s.len as usize),
            None => img.len(),
        };
        out.push(DBlob { offset: off, slots });
        off += step;
    }
    out
}

/// Structural complaints about one block image (C07): alignment, containment, disjointness,
/// header/slot agreement, checksums.
pub fn check_block(img: &[u8], blob_index_size: usize, block: usize) -> Vec<String> {
    let mut out = vec![];
    let blobs = scan_block(img, blob_index_size);
    let mut extents: Vec<(usize, usize, String)> = vec![];
    let mut last_seq = 0u64;
    for b in blobs.iter() {
        extents.push((b.offset, b.offset + blob_index_size, format!("index@{}", b.offset)));
        for s in b.slots.iter() {
            let start = b.offset + s.offset as usize;
            let end = start + align_up(s.len as usize);
            if start % PAGE != 0 {
                out.push(format!("block {block}: entry hash {} at {start} is not page aligned", s.hash));
            }
            if end > img.len() || (s.offset as usize) < blob_index_size {
                out.push(format!(
                    "block {block}: entry hash {} occupies {start}..{end} outside the block of {} bytes / inside its index",
                    s.hash,
                    img.len()
                ));
                continue;
            }
            extents.push((start, end, format!("entry hash {} seq {}", s.hash, s.sequence)));
            match decode_entry(img, start) {
                None => out.push(format!("block {block}: slot hash {} seq {} points at {start} where no entry header is", s.hash, s.sequence)),
                Some(e) => {
                    if e.header.hash != s.hash || e.header.sequence != s.sequence {
                        out.push(format!(
                            "block {block}: slot (hash {}, seq {}) points at an entry with (hash {}, seq {})",
                            s.hash, s.sequence, e.header.hash, e.header.sequence
                        ));
                    }
                    if e.header.total_len() != s.len as usize {
                        out.push(format!(
                            "block {block}: slot of hash {} records {} bytes, the entry header says {}",
                            s.hash,
                            s.len,
                            e.header.total_len()
                        ));
                    }
                    if !e.checksum_ok {
                        out.push(format!("block {block}: entry hash {} seq {} at {start} fails its checksum", s.hash, s.sequence));
                    }
                }
            }
            if s.sequence < last_seq {
                out.push(format!(
                    "block {block}: sequence goes backwards within the block ({} after {last_seq})",
                    s.sequence
                ));
            }
            last_seq = s.sequence;
        }
    }
    extents.sort();
    for w in extents.windows(2) {
        if w[0].1 > w[1].0 {
            out.push(format!(
                "block {block}: {} ({}..{}) overlaps {} ({}..{})",
                w[0].2, w[0].0, w[0].1, w[1].2, w[1].0, w[1].1
            ));
        }
    }
    out
}

/// Tombstones stored in a tombstone log image: (slot index, hash, sequence), empty slots skipped.
pub fn tombstones(img: &[u8]) -> Vec<(usize, u64, u64)> {
    img.chunks_exact(16)
        .enumerate()
        .filter_map(|(i, c)| {
            let hash = be64(&c[0..8]);
            let seq = be64(&c[8..16]);
            if seq == 0 {
                None
            } else {
                Some((i, hash, seq))
            }
        })
        .collect()
}
