//! Engine T — thread interleavings of the real in-memory cache (C02; thread-level parts of C18/C13/C16).
//!
//! The cache's `parking_lot` locks are the facade's (`plshim`): registered threads run one at a time
//! and every lock acquire / release, spawn, join and thread exit is a scheduling point at which the
//! explorer decides who runs next (preemption-bounded, CHESS style).

use std::{
    collections::BTreeMap,
    sync::{
        atomic::{AtomicU64, Ordering},
        Arc, Mutex,
    },
    time::{Duration, Instant},
};

use foyer_common::event::{Event, EventListener};
use foyer_memory::{Cache, CacheBuilder, CacheEntry, CacheProperties};
use parking_lot::sched;
use serde::{Deserialize, Serialize};
use serde_json::{json, Value};
use vcore::{
    evidence::{ShardResult, Violation},
    Ctx, ExploreLimits,
};

use crate::{
    framework::{Prop, Tier},
    memdrive::VHash,
    memmodel::Algo,
};

type TC = Cache<u64, u64, VHash, CacheProperties>;
type TE = CacheEntry<u64, u64, VHash, CacheProperties>;

#[derive(Debug, Clone, Copy, PartialEq, Eq, Serialize, Deserialize)]
pub enum TOp {
    Ins { k: u64 },
    Rm { k: u64 },
    Get { k: u64, hold: bool },
    Contains { k: u64 },
    Touch { k: u64 },
    Clear,
    EvictAll,
    /// get_or_fetch with an origin that resolves at once; the calling thread drives the fetch task.
    Fetch { k: u64 },
    /// resize(c): the per-shard helper threads are controlled threads too (foyer-memory's `verif` seam).
    Resize { c: usize },
}

#[derive(Debug, Clone, Serialize, Deserialize)]
pub struct TJob {
    pub algo: Algo,
    pub shards: usize,
    pub capacity: usize,
    pub prologue: Vec<TOp>,
    pub threads: Vec<Vec<TOp>>,
    pub bound: usize,
    /// Entries of this key weigh 0 (all others 1): `usage` no longer tells whether a shard is empty.
    #[serde(default)]
    pub zero_weight_key: Option<u64>,
    /// Every atomic operation on a record's reference count / flags is a scheduling point as well
    /// (foyer-memory's `verif` seam), not only lock operations.
    #[serde(default)]
    pub atomic_points: bool,
    /// The cache's admission filter rejects every value produced by a `Fetch` origin: fetched records are
    /// phantoms (handed to the callers, never indexed).
    #[serde(default)]
    pub reject_fetched: bool,
    /// Keys 4 and 8 have the same 64-bit hash (the user-supplied hasher maps 8 to 4's hash).
    #[serde(default)]
    pub collide: bool,
}

#[derive(Debug, Clone)]
enum Obs {
    Insert { key: u64, val: u64 },
    Remove { key: u64, returned: Option<u64> },
    Lookup { key: u64, kind: &'static str, returned: Option<u64> },
    Contains { key: u64, found: bool },
    ClearAll,
}

#[derive(Debug, Clone)]
struct Rec {
    thread: usize,
    invoke: u64,
    resp: u64,
    obs: Obs,
}

#[derive(Default)]
struct Shared {
    log: Mutex<Vec<Rec>>,
    clock: AtomicU64,
    /// value -> number of looked-up handles currently held (between the return of the lookup and the
    /// decision to drop it).
    held_lookups: Mutex<BTreeMap<u64, usize>>,
    complaints: Mutex<Vec<(String, String)>>,
    evictions: AtomicU64,
    /// value -> leave notifications seen (any reason).
    leaves: Mutex<BTreeMap<u64, Vec<u8>>>,
    /// get_or_fetch calls: (key, the value its origin would return, what the call returned, origin ran).
    fetches: Mutex<Vec<(u64, u64, Option<u64>, bool)>>,
    /// Capacity set by the most recently completed resize (0: never resized).
    last_capacity: AtomicU64,
    /// Values the admission filter rejects (their records are phantoms: never admitted, so neither their
    /// notifications nor their "evictions" count).
    rejected: Mutex<Vec<u64>>,
}

struct Listener {
    sh: Arc<Shared>,
    lru: bool,
}

impl EventListener for Listener {
    type Key = u64;
    type Value = u64;

    fn on_leave(&self, reason: Event, key: &u64, value: &u64) {
        self.sh.leaves.lock().unwrap().entry(*value).or_default().push(match reason {
            Event::Evict => 0,
            Event::Replace => 1,
            Event::Remove => 2,
            Event::Clear => 3,
        });
        if reason == Event::Evict && !self.sh.rejected.lock().unwrap().contains(value) {
            self.sh.evictions.fetch_add(1, Ordering::SeqCst);
            if self.lru {
                let held = self.sh.held_lookups.lock().unwrap().get(value).copied().unwrap_or(0);
                if held > 0 {
                    self.sh.complaints.lock().unwrap().push((
                        "P.pinned-evicted".to_string(),
                        format!("LRU evicted key {key} (value {value}) while {held} looked-up handle(s) to it are still held"),
                    ));
                }
            }
        }
    }
}

fn val_of(thread: usize, op: usize) -> u64 {
    (thread as u64 + 1) * 100 + op as u64 + 1
}

struct Held {
    e: TE,
    key: u64,
    val: u64,
    weight: usize,
    looked_up: bool,
    /// When the lookup that produced the handle was invoked.
    invoke: u64,
}

fn run_ops(cache: &TC, sh: &Arc<Shared>, thread: usize, ops: &[TOp]) -> Vec<Held> {
    let mut held = vec![];
    for (i, op) in ops.iter().enumerate() {
        let invoke = sh.clock.fetch_add(1, Ordering::SeqCst);
        let obs = match *op {
            TOp::Ins { k } => {
                let v = val_of(thread, i);
                let e = cache.insert(k, v);
                drop(e);
                Obs::Insert { key: k, val: v }
            }
            TOp::Rm { k } => {
                let e = cache.remove(&k);
                let r = e.as_ref().map(|e| *e.value());
                drop(e);
                Obs::Remove { key: k, returned: r }
            }
            TOp::Get { k, hold } => {
                let e = cache.get(&k);
                let r = e.as_ref().map(|e| *e.value());
                if let Some(e) = e {
                    *sh.held_lookups.lock().unwrap().entry(*e.value()).or_insert(0) += 1;
                    if hold {
                        held.push(Held {
                            key: *e.key(),
                            val: *e.value(),
                            weight: e.weight(),
                            e,
                            looked_up: true,
                            invoke,
                        });
                    } else {
                        release(sh, *e.value());
                        drop(e);
                    }
                }
                Obs::Lookup { key: k, kind: "get", returned: r }
            }
            TOp::Contains { k } => Obs::Contains { key: k, found: cache.contains(&k) },
            TOp::Touch { k } => {
                let f = cache.touch(&k);
                Obs::Contains { key: k, found: f }
            }
            TOp::Clear => {
                cache.clear();
                Obs::ClearAll
            }
            TOp::EvictAll => {
                cache.evict_all();
                Obs::Lookup { key: u64::MAX, kind: "evict_all", returned: None }
            }
            TOp::Resize { c } => {
                let ok = cache.resize(c).is_ok();
                if ok {
                    sh.last_capacity.store(c as u64, Ordering::SeqCst);
                }
                if !ok {
                    sh.complaints.lock().unwrap().push(("X.resize-error".into(), format!("resize({c}) returned an error")));
                }
                Obs::Lookup { key: u64::MAX, kind: "resize", returned: None }
            }
            TOp::Fetch { k } => {
                use std::future::Future;
                let v = val_of(thread, i);
                let polled = Arc::new(std::sync::atomic::AtomicBool::new(false));
                let p2 = polled.clone();
                let mut fut = Box::pin(cache.get_or_fetch(&k, move || async move {
                    p2.store(true, Ordering::SeqCst);
                    Ok::<u64, anyhow::Error>(v)
                }));
                let waker = tokio::sim::noop_waker();
                let mut cx = std::task::Context::from_waker(&waker);
                let mut spins = 0;
                let mut gave_up = false;
                let r = loop {
                    if let std::task::Poll::Ready(r) = fut.as_mut().poll(&mut cx) {
                        break r.ok().map(|e| *e.value());
                    }
                    // Drive the runtime from this (controlled) thread; if nothing is ready, let others run.
                    match tokio::sim::ready().first() {
                        Some(id) => {
                            tokio::sim::poll(*id);
                        }
                        None => {
                            spins += 1;
                            if spins > 200 {
                                // the caller gives up and drops its future; the fetch task lives on
                                gave_up = true;
                                break None;
                            }
                            sched::yield_point("fetch-idle");
                        }
                    }
                };
                drop(fut);
                let ran = polled.load(Ordering::SeqCst);
                if ran {
                    // the origin ran: its value was (being) inserted by this call. If the caller gave up, the
                    // fetch task finishes the insertion at some later time: the insert never "completes" for
                    // the register oracle.
                    let now = if gave_up { u64::MAX } else { sh.clock.load(Ordering::SeqCst) };
                    sh.log.lock().unwrap().push(Rec { thread, invoke, resp: now, obs: Obs::Insert { key: k, val: v } });
                }
                if !gave_up {
                    sh.fetches.lock().unwrap().push((k, v, r, ran));
                }
                Obs::Lookup { key: k, kind: "gof", returned: r }
            }
        };
        let resp = sh.clock.fetch_add(1, Ordering::SeqCst);
        sh.log.lock().unwrap().push(Rec { thread, invoke, resp, obs });
    }
    held
}

fn release(sh: &Arc<Shared>, val: u64) {
    let mut h = sh.held_lookups.lock().unwrap();
    if let Some(c) = h.get_mut(&val) {
        *c -= 1;
    }
}

fn finish_held(sh: &Arc<Shared>, held: Vec<Held>, lru: bool) {
    for h in held {
        if *h.e.key() != h.key || *h.e.value() != h.val || h.e.weight() != h.weight {
            sh.complaints.lock().unwrap().push((
                "H.unchanged".to_string(),
                format!("a held handle of key {} value {} now reads key {} value {}", h.key, h.val, h.e.key(), h.e.value()),
            ));
        }
        if h.looked_up {
            if lru && h.e.is_outdated() {
                // Replaced / removed / cleared by an explicit call is fine; otherwise it was evicted although a
                // looked-up handle existed from the moment the lookup returned.
                let explained = sh.log.lock().unwrap().iter().any(|r| {
                    r.resp > h.invoke
                        && match r.obs {
                            Obs::Insert { key, val } => key == h.key && val != h.val,
                            Obs::Remove { key, .. } => key == h.key,
                            Obs::ClearAll => true,
                            _ => false,
                        }
                });
                if !explained {
                    sh.complaints.lock().unwrap().push((
                        "P.pinned-evicted".to_string(),
                        format!("a handle of key {} (value {}) obtained by a lookup under LRU is outdated while held, and no replace / remove / clear of the key explains it: the entry was evicted", h.key, h.val),
                    ));
                }
            }
            release(sh, h.val);
        }
        drop(h.e);
    }
}

fn eviction_config(a: &Algo) -> foyer_memory::EvictionConfig {
    match *a {
        Algo::Fifo => foyer_memory::FifoConfig {}.into(),
        Algo::Lru { ratio } => foyer_memory::LruConfig {
            high_priority_pool_ratio: ratio,
        }
        .into(),
        Algo::Sieve => foyer_memory::SieveConfig {}.into(),
        Algo::S3Fifo { small, ghost, threshold } => foyer_memory::S3FifoConfig {
            small_queue_capacity_ratio: small,
            ghost_queue_capacity_ratio: ghost,
            small_to_main_freq_threshold: threshold,
        }
        .into(),
        Algo::Lfu { window, protected } => foyer_memory::LfuConfig {
            window_capacity_ratio: window,
            protected_capacity_ratio: protected,
            cmsketch_eps: 0.001,
            cmsketch_confidence: 0.9,
        }
        .into(),
        Algo::LfuSketch { window, protected, eps } => foyer_memory::LfuConfig {
            window_capacity_ratio: window,
            protected_capacity_ratio: protected,
            cmsketch_eps: eps,
            cmsketch_confidence: 0.9,
        }
        .into(),
    }
}

/// The register oracle in the statement's own form.
fn judge(log: &[Rec]) -> Vec<(String, String)> {
    let mut out = vec![];
    let inserts: Vec<(&Rec, u64, u64)> = log
        .iter()
        .filter_map(|r| match r.obs {
            Obs::Insert { key, val } => Some((r, key, val)),
            _ => None,
        })
        .collect();
    let check = |r: &Rec, key: u64, returned: u64, what: &str, out: &mut Vec<(String, String)>| {
        // the returned value must be an insert of this key that started before the lookup returned
        let Some((ins, _, _)) = inserts.iter().find(|(_, k, v)| *k == key && *v == returned) else {
            let foreign = inserts.iter().any(|(_, _, v)| *v == returned);
            out.push((
                if foreign { "R.foreign".to_string() } else { "R.unknown-value".to_string() },
                format!("{what}({key}) of thread {} returned {returned}, which was never inserted for that key", r.thread),
            ));
            return;
        };
        if ins.invoke > r.resp {
            out.push(("R.future".to_string(), format!("{what}({key}) returned {returned} before its insert started")));
        }
        // superseded by an insert or remove (or clear) that completed before the lookup started?
        for s in log.iter() {
            let supersedes = match s.obs {
                Obs::Insert { key: k2, val } => k2 == key && val != returned,
                Obs::Remove { key: k2, .. } => k2 == key,
                Obs::ClearAll => true,
                _ => false,
            };
            // A remove that itself returned this value has observed the insert: it is ordered after it even
            // if the two calls overlapped in time.
            let observed = matches!(s.obs, Obs::Remove { key: k2, returned: Some(v) } if k2 == key && v == returned);
            if supersedes && (s.invoke > ins.resp || observed) && s.resp < r.invoke && !std::ptr::eq(s, r) {
                out.push((
                    "R.stale".to_string(),
                    format!(
                        "{what}({key}) of thread {} (t{}..{}) returned {returned} (inserted t{}..{}) although {:?} of thread {} completed in between (t{}..{})",
                        r.thread, r.invoke, r.resp, ins.invoke, ins.resp, s.obs, s.thread, s.invoke, s.resp
                    ),
                ));
                break;
            }
        }
    };
    for r in log.iter() {
        match r.obs {
            Obs::Lookup { key, kind, returned: Some(v) } => check(r, key, v, kind, &mut out),
            Obs::Remove { key, returned: Some(v) } => check(r, key, v, "remove", &mut out),
            _ => {}
        }
    }
    out
}

struct ExecOut {
    complaints: Vec<(String, String)>,
    log_fp: u64,
    steps: usize,
    switches: usize,
    evictions: u64,
    hits: u64,
}

fn execute(job: &TJob, ctx: Arc<Mutex<Ctx>>, on_deadlock: sched::DeadlockHandler) -> ExecOut {
    let sh = Arc::new(Shared::default());
    let ctx2 = ctx.clone();
    tokio::sim::reset();
    sched::begin(sched::Config {
        chooser: Box::new(move |p: &sched::Point| {
            let mut c = ctx2.lock().unwrap();
            let i = c.choose(p.enabled.len(), !p.current_enabled);
            c.label(|| format!("{:?}: run t{} of {:?}", p.why, p.enabled[i], p.enabled));
            i
        }),
        on_deadlock,
        max_steps: 20_000,
        point_after_unlock: true,
    });
    // resize() helpers become controlled threads; optionally every record atomic is a scheduling point.
    foyer_memory::verif::set_spawner(Some(Arc::new(|job: foyer_memory::verif::Job| {
        let h = sched::spawn("resize-helper", job);
        Box::new(move || {
            let _ = sched::join(h);
        }) as foyer_memory::verif::Joiner
    })));
    if job.atomic_points {
        foyer_memory::verif::set_atomic_point(Some(|| sched::step_point("atomic")));
    }
    let res = std::panic::catch_unwind(std::panic::AssertUnwindSafe(|| {
        let cache: TC = CacheBuilder::new(job.capacity)
            .with_shards(job.shards)
            .with_eviction_config(eviction_config(&job.algo))
            .with_hash_builder(if job.collide { VHash { table: Arc::new(vec![0, 1, 2, 3, 4, 5, 6, 7, 4]) } } else { VHash::default() })
            .with_weighter({
                let z = job.zero_weight_key;
                move |k: &u64, _: &u64| usize::from(Some(*k) != z)
            })
            .with_filter({
                let rejected: Vec<u64> = if job.reject_fetched {
                    job.threads
                        .iter()
                        .enumerate()
                        .flat_map(|(ti, ops)| ops.iter().enumerate().filter(|(_, o)| matches!(o, TOp::Fetch { .. })).map(move |(i, _)| val_of(ti + 1, i)))
                        .collect()
                } else {
                    vec![]
                };
                *sh.rejected.lock().unwrap() = rejected.clone();
                move |_: &u64, v: &u64| !rejected.contains(v)
            })
            .with_event_listener(Arc::new(Listener {
                sh: sh.clone(),
                lru: job.algo.is_lru(),
            }))
            .build();
        let lru = job.algo.is_lru();
        let held0 = run_ops(&cache, &sh, 0, &job.prologue);
        let mut handles = vec![];
        for (ti, ops) in job.threads.iter().enumerate() {
            let c = cache.clone();
            let s = sh.clone();
            let ops = ops.clone();
            handles.push(sched::spawn(&format!("w{}", ti + 1), move || run_ops(&c, &s, ti + 1, &ops)));
        }
        let mut panics = vec![];
        let mut all_held = vec![];
        for h in handles {
            match sched::join(h) {
                Ok(held) => all_held.push(held),
                Err(p) => panics.push(tokio::sim::panic_message(&p)),
            }
        }
        // Handles are held until every thread has finished (the log is complete by then), re-read, dropped.
        for held in all_held {
            finish_held(&sh, held, lru);
        }
        finish_held(&sh, held0, lru);
        // A fetch task whose caller was answered by a concurrent insert before ever polling it is still
        // sitting in the runtime (it owns a clone of the cache): let the runtime finish such tasks, as a
        // real runtime would.
        let mut drained = 0;
        while let Some(id) = tokio::sim::ready().first().copied() {
            tokio::sim::poll(id);
            drained += 1;
            if drained > 1000 {
                break;
            }
        }
        // Final reads by the main thread (after every other operation): judged like any other lookup.
        let mut keys: Vec<u64> = job
            .prologue
            .iter()
            .chain(job.threads.iter().flatten())
            .filter_map(|o| match o {
                TOp::Ins { k } | TOp::Rm { k } | TOp::Get { k, .. } | TOp::Touch { k } | TOp::Fetch { k } | TOp::Contains { k } => Some(*k),
                _ => None,
            })
            .collect();
        keys.sort();
        keys.dedup();
        for k in keys {
            let invoke = sh.clock.fetch_add(1, Ordering::SeqCst);
            let r = cache.get(&k).map(|e| *e.value());
            let resp = sh.clock.fetch_add(1, Ordering::SeqCst);
            sh.log.lock().unwrap().push(Rec { thread: 0, invoke, resp, obs: Obs::Lookup { key: k, kind: "final-get", returned: r } });
        }
        // No capacity eviction happened and nothing removes: a key that an explicit insert put into the cache is
        // still there at the end (the only other writers are fetches, whose results never take an entry out).
        {
            let removing = job.prologue.iter().chain(job.threads.iter().flatten()).any(|o| matches!(o, TOp::Rm { .. } | TOp::Clear | TOp::EvictAll | TOp::Resize { .. }));
            if !removing && sh.evictions.load(Ordering::SeqCst) == 0 && job.zero_weight_key.is_none() {
                let log = sh.log.lock().unwrap();
                let fetched: Vec<u64> = sh.fetches.lock().unwrap().iter().map(|f| f.1).collect();
                for r in log.iter() {
                    if let Obs::Insert { key, val } = r.obs {
                        if fetched.contains(&val) || r.resp == u64::MAX {
                            continue;
                        }
                        let gone = log.iter().any(|x| matches!(x.obs, Obs::Lookup { key: k2, kind: "final-get", returned: None } if k2 == key));
                        if gone {
                            let fetch_on_key = job.threads.iter().flatten().any(|o| matches!(o, TOp::Fetch { k } if *k == key));
                            sh.complaints.lock().unwrap().push((
                                if fetch_on_key { "F.late-fetch-removed-insert".into() } else { "H.lost-insert".into() },
                                format!("insert({key}) of value {val} completed, nothing was evicted, removed or cleared, yet the final lookup of key {key} misses"),
                            ));
                            break;
                        }
                    }
                }
            }
        }
        // C11 at thread granularity: a get_or_fetch call that was answered with the value of an explicit
        // insert (so that insert completed while the fetch was waiting on its origin) must not have its own
        // origin value in the cache afterwards — the late fetch result never replaces the insert.
        {
            let log = sh.log.lock().unwrap();
            for (k, vf, returned, ran) in sh.fetches.lock().unwrap().iter() {
                let Some(v) = returned else { continue };
                if !*ran || v == vf {
                    continue;
                }
                let final_is_fetch = log.iter().any(|r| matches!(r.obs, Obs::Lookup { key, kind: "final-get", returned: Some(x) } if key == *k && x == *vf));
                if final_is_fetch {
                    sh.complaints.lock().unwrap().push((
                        "F.late-fetch-replaced-insert".into(),
                        format!("get_or_fetch({k}) was answered with {v} (an explicit insert that completed while the fetch was waiting on its origin), but afterwards the cache holds the origin's value {vf}: the late fetch result replaced the insert"),
                    ));
                }
            }
        }
        // quiescent epilogue: accounting must be consistent and within capacity
        let usage = cache.usage();
        let entries = cache.entries();
        // With no handle outstanding, a resize that completed last leaves every shard within its new capacity:
        // usage <= capacity unless a later insert raced with it (inserts keep the bound themselves).
        let cap = sh.last_capacity.load(Ordering::SeqCst) as usize;
        let holds = job.prologue.iter().chain(job.threads.iter().flatten()).any(|o| matches!(o, TOp::Get { hold: true, .. }));
        if cap > 0 && job.zero_weight_key.is_none() && !holds && usage > cap.max(job.shards) {
            sh.complaints.lock().unwrap().push(("W.over-capacity-after-resize".into(), format!("after all threads finished usage() = {usage} exceeds the capacity {cap} set by the last completed resize")));
        }
        if usage != entries && job.zero_weight_key.is_none() {
            sh.complaints.lock().unwrap().push(("W.usage-eq".into(), format!("after all threads finished usage() = {usage} but entries() = {entries} (unit weights)")));
        }
        drop(cache);
        // Every admitted entry has left by now (the cache is gone): exactly one notification each.
        {
            let leaves = sh.leaves.lock().unwrap();
            // The value of a fetch whose caller was answered with something else (or gave up) may have been
            // dropped instead of inserted (superseded fetch): it leaves at most once.
            let maybe: Vec<u64> = sh.fetches.lock().unwrap().iter().filter(|f| f.2 != Some(f.1)).map(|f| f.1).collect();
            for r in sh.log.lock().unwrap().iter() {
                if let Obs::Insert { key, val } = r.obs {
                    let n = leaves.get(&val).map(|v| v.len()).unwrap_or(0);
                    if n == 0 && (r.resp == u64::MAX || maybe.contains(&val)) {
                        continue;
                    }
                    if sh.rejected.lock().unwrap().contains(&val) {
                        continue;
                    }
                    if n != 1 {
                        sh.complaints.lock().unwrap().push((
                            if n == 0 { "L.missing-leave".to_string() } else { "L.twice".to_string() },
                            format!("value {val} of key {key} (inserted by thread {}) produced {n} leave notifications: {:?}", r.thread, leaves.get(&val)),
                        ));
                    }
                }
            }
        }
        panics
    }));
    let summary = sched::end();
    foyer_memory::verif::set_atomic_point(None);
    crate::memdrive::install_inline_spawner();
    let mut complaints: Vec<(String, String)> = std::mem::take(&mut *sh.complaints.lock().unwrap());
    match res {
        Ok(panics) => {
            for p in panics {
                complaints.push(("X.panic".into(), format!("a thread panicked: {p}")));
            }
        }
        Err(p) => complaints.push(("X.panic".into(), format!("the harness thread panicked: {}", tokio::sim::panic_message(&p)))),
    }
    if let Some(a) = summary.aborted {
        complaints.push(("K.deadlock".into(), a));
    }
    let log = sh.log.lock().unwrap().clone();
    complaints.extend(judge(&log));
    let mut fpv: Vec<u64> = vec![];
    let mut hits = 0;
    for r in log.iter() {
        fpv.push(r.thread as u64);
        match r.obs {
            Obs::Lookup { returned, .. } | Obs::Remove { returned, .. } => {
                if returned.is_some() {
                    hits += 1;
                }
                fpv.push(returned.unwrap_or(0))
            }
            Obs::Contains { found, .. } => fpv.push(found as u64),
            _ => fpv.push(7),
        }
    }
    ExecOut {
        complaints,
        log_fp: vcore::fingerprint(&fpv),
        steps: summary.steps,
        switches: summary.switches,
        evictions: sh.evictions.load(Ordering::SeqCst),
        hits,
    }
}

pub struct TProp {
    pub id: &'static str,
    /// Oracle clause prefixes this property owns in the thread harness.
    pub owned: Vec<&'static str>,
    pub jobs: fn(Tier) -> Vec<TJob>,
    pub rule: &'static str,
}

pub fn c02() -> TProp {
    TProp {
        id: "C02",
        owned: vec!["R.", "H.", "K.", "X.", "W.", "P.", "F.late-fetch-removed"],
        jobs,
        rule: "",
    }
}

/// C18 thread part: the pin / unpin / evict races under LRU.
pub fn c18_t() -> TProp {
    TProp {
        id: "C18",
        owned: vec!["P.", "H.", "X."],
        jobs: jobs_c18,
        rule: "Engine T (thread part of C18): two- and three-thread programs of lookups (drop / hold), touch, handle drops and evicting inserts / evict_all on one LRU shard (pool ratios 0.9 and 0.5), every interleaving with at most 2 preemptions (3 in the thorough tier for two-thread programs); a listener flags any eviction of an entry while a looked-up handle to it is held; held handles are re-read at the end.",
    }
}

/// C11 thread part: the window between the fetch task's supersession check and its insertion.
pub fn c11_t() -> TProp {
    TProp {
        id: "C11",
        owned: vec!["F.", "X.", "K."],
        jobs: jobs_c11,
        rule: "Engine T (thread part of C11): programs {get_or_fetch(k) [; get(k)]} vs {insert(k) [; insert(k)]} and get_or_fetch vs get_or_fetch vs insert on one key, all five algorithms, every interleaving of the OS threads (the caller drives its own fetch task) with at most 2 (thorough 3) preemptions at lock granularity; after all threads finished the main thread reads the key. Oracle: a get_or_fetch call that was answered with the value of an explicit insert must not leave its own origin value in the cache.",
    }
}

fn jobs_c11(tier: Tier) -> Vec<TJob> {
    let k = 4u64;
    let f = TOp::Fetch { k };
    let i = TOp::Ins { k };
    let g = TOp::Get { k, hold: false };
    let progs: Vec<Vec<Vec<TOp>>> = vec![
        vec![vec![f], vec![i]],
        vec![vec![f, g], vec![i]],
        vec![vec![f], vec![i, i]],
        vec![vec![f], vec![i, TOp::Rm { k }]],
        vec![vec![f], vec![f], vec![i]],
    ];
    let mut v = vec![];
    for algo in Algo::defaults() {
        for threads in progs.iter() {
            for prologue in [vec![], vec![TOp::Ins { k: 8 }]] {
                v.push(TJob {
                    algo,
                    shards: 1,
                    capacity: 2,
                    prologue,
                    threads: threads.clone(),
                    bound: if tier == Tier::Thorough && threads.len() < 3 { 3 } else { 2 },
                    zero_weight_key: None,
                    atomic_points: false,
                    reject_fetched: false,
                collide: false,
                });
            }
            // the fetched value is rejected by the admission filter (a phantom record): it must neither
            // replace nor remove what an explicit insert put there
            v.push(TJob {
                algo,
                shards: 1,
                capacity: 4,
                prologue: vec![],
                threads: threads.clone(),
                bound: if tier == Tier::Thorough && threads.len() < 3 { 3 } else { 2 },
                zero_weight_key: None,
                atomic_points: false,
                reject_fetched: true,
                collide: false,
            });
        }
    }
    v
}

/// C13 thread part: conservation of leave notifications under concurrency.
pub fn c13_t() -> TProp {
    TProp {
        id: "C13",
        owned: vec!["L.", "X."],
        jobs: jobs_c13,
        rule: "Engine T (thread part of C13): the two-thread programs of C02 (single operations and 2-vs-1 operation programs incl. insert, replace, remove, clear, evict_all on a contended key) on LRU, S3-FIFO and FIFO with capacity 2, every interleaving with at most 2 preemptions; after all threads finished and the cache is dropped every value ever inserted must have produced exactly one leave notification.",
    }
}

fn jobs_c13(tier: Tier) -> Vec<TJob> {
    let mut v = vec![];
    let algos: Vec<Algo> = if tier == Tier::Quick {
        vec![Algo::Lru { ratio: 0.9 }, Algo::Fifo]
    } else {
        Algo::defaults()
    };
    for algo in algos {
        for (pro, threads) in programs(Tier::Quick) {
            if !threads.iter().flatten().any(|o| matches!(o, TOp::Ins { .. })) && pro.is_empty() {
                continue;
            }
            if threads.len() >= 3 {
                continue;
            }
            v.push(TJob {
                algo,
                shards: 1,
                capacity: 2,
                prologue: pro,
                threads,
                bound: 2,
                zero_weight_key: None,
                atomic_points: false,
                reject_fetched: false,
                collide: false,
            });
        }
        // A full shard (two other keys resident) while a fetch of the contended key is overtaken by an explicit
        // insert: whatever the superseded fetch result makes the shard evict must still be notified.
        let a = 4u64;
        for threads in [
            vec![vec![TOp::Fetch { k: a }], vec![TOp::Ins { k: a }]],
            vec![vec![TOp::Fetch { k: a }], vec![TOp::Ins { k: a }, TOp::Ins { k: a }]],
            vec![vec![TOp::Fetch { k: a }, TOp::Get { k: a, hold: false }], vec![TOp::Ins { k: a }]],
        ] {
            v.push(TJob {
                algo,
                shards: 1,
                capacity: 2,
                prologue: vec![TOp::Ins { k: 8 }, TOp::Ins { k: 12 }],
                threads,
                bound: 2,
                zero_weight_key: None,
                atomic_points: false,
                reject_fetched: false,
                collide: false,
            });
        }
    }
    v
}

/// C16 thread part: no combination of concurrent operations deadlocks.
pub fn c16_t() -> TProp {
    TProp {
        id: "C16",
        owned: vec!["K.", "X."],
        jobs: jobs_c16,
        rule: "Engine T (thread part of C16): the two- and three-thread programs of C02 over all five algorithms with deadlock detection (no enabled thread while some thread is unfinished) and self-deadlock detection in the lock facade, every interleaving with at most 2 preemptions.",
    }
}

fn jobs_c18(tier: Tier) -> Vec<TJob> {
    let a = 4u64;
    let mut progs: Vec<(Vec<TOp>, Vec<Vec<TOp>>)> = vec![];
    let lookups = [TOp::Get { k: a, hold: false }, TOp::Get { k: a, hold: true }, TOp::Touch { k: a }];
    let evictors: Vec<Vec<TOp>> = vec![vec![TOp::Ins { k: 8 }, TOp::Ins { k: 12 }], vec![TOp::EvictAll], vec![TOp::Ins { k: a }, TOp::Ins { k: 8 }]];
    for pro in [vec![TOp::Ins { k: a }], vec![], vec![TOp::Ins { k: a }, TOp::Get { k: a, hold: true }]] {
        for x in lookups.iter() {
            progs.push((pro.clone(), vec![vec![*x, TOp::EvictAll], vec![TOp::Ins { k: a }]]));
            for ev in evictors.iter() {
                progs.push((pro.clone(), vec![vec![*x], ev.clone()]));
                for y in lookups.iter() {
                    progs.push((pro.clone(), vec![vec![*x], vec![*y], ev.clone()]));
                }
            }
        }
    }
    let mut v = vec![];
    let ratios: Vec<f64> = if tier == Tier::Quick { vec![0.9] } else { vec![0.9, 0.5] };
    for ratio in ratios {
        for (pro, threads) in progs.iter() {
            let three = threads.len() >= 3;
            v.push(TJob {
                algo: Algo::Lru { ratio },
                shards: 1,
                capacity: 2,
                prologue: pro.clone(),
                threads: threads.clone(),
                bound: if tier == Tier::Thorough && !three { 3 } else { 2 },
                zero_weight_key: None,
                atomic_points: false,
                reject_fetched: false,
                collide: false,
            });
            // the same two-thread programs with every atomic operation on a record's reference count and
            // flags as an additional scheduling point (handle clone / drop / is_outdated run outside the locks)
            if !three {
                v.push(TJob {
                    algo: Algo::Lru { ratio },
                    shards: 1,
                    capacity: 2,
                    prologue: pro.clone(),
                    threads: threads.clone(),
                    bound: 2,
                    zero_weight_key: None,
                    atomic_points: true,
                    reject_fetched: false,
                collide: false,
                });
            }
        }
    }
    v
}

fn jobs_c16(tier: Tier) -> Vec<TJob> {
    let mut v = vec![];
    for algo in Algo::defaults() {
        for (pro, threads) in programs(Tier::Quick) {
            if tier == Tier::Quick && threads.iter().map(|t| t.len()).sum::<usize>() > 2 && threads.len() < 3 {
                continue;
            }
            // resize on two shards adds two helper threads: one preemption in the quick tier
            let resize = threads.iter().flatten().any(|o| matches!(o, TOp::Resize { .. }));
            v.push(TJob {
                algo,
                shards: 2,
                capacity: 2,
                prologue: pro,
                threads,
                bound: if resize && tier == Tier::Quick { 1 } else { 2 },
                zero_weight_key: None,
                atomic_points: false,
                reject_fetched: false,
                collide: false,
            });
        }
    }
    v
}

fn sig(clause: &str, job: &TJob) -> String {
    format!("{clause}|{}|shards{}", job.algo.short(), job.shards)
}

fn explore_job(prop: &TProp, job: &TJob, res: &mut ShardResult, deadline: Instant, shard_out: &Arc<Mutex<Option<std::path::PathBuf>>>) -> bool {
    let limits = ExploreLimits {
        bound: job.bound,
        max_execs: 200_000,
        deadline: Some(deadline),
    };
    let mut keep = true;
    // `explore` owns the Ctx; the scheduler's chooser needs shared access: bridge through an Arc<Mutex>.
    let mut stack: Vec<Vec<u32>> = vec![vec![]];
    let mut execs = 0u64;
    while let Some(prefix) = stack.pop() {
        if execs >= limits.max_execs || Instant::now() >= deadline {
            res.capped = true;
            res.notes.insert("a thread program hit its execution or wall cap".into());
            break;
        }
        let plen = prefix.len();
        let ctx = Arc::new(Mutex::new(Ctx::new(prefix)));
        // On a deadlock the blocked threads cannot be unwound: report through the journal and leave.
        let jv = Violation {
            property: prop.id.into(),
            clause: "K.deadlock".into(),
            signature: sig("K.deadlock", job),
            message: String::new(),
            witness: json!({}),
        };
        let job_json = serde_json::to_value(job).unwrap();
        let ctx3 = ctx.clone();
        let so = shard_out.clone();
        let handler: sched::DeadlockHandler = Box::new(move |desc: &str| {
            let mut v = jv.clone();
            v.message = format!("threads deadlocked: {desc}");
            v.witness = json!({"engine": "T", "job": job_json, "choices": ctx3.lock().map(|c| c.choices()).unwrap_or_default()});
            if so.lock().unwrap().is_some() {
                vcore::par::journal(&v);
                std::process::exit(3);
            }
        });
        let out = execute(job, ctx.clone(), handler);
        let ctx = Arc::try_unwrap(ctx).map(|m| m.into_inner().unwrap()).unwrap_or_else(|a| {
            let g = a.lock().unwrap();
            let mut c = Ctx::new(g.choices());
            c.points = g.points.clone();
            c
        });
        if let Some(d) = &ctx.diverged {
            eprintln!("MACHINERY: {d}");
            std::process::exit(vcore::EXIT_MACHINERY);
        }
        execs += 1;
        res.add("executions", 1);
        res.add("steps", out.steps as u64);
        res.add("context_switches", out.switches as u64);
        res.add("choice_points", ctx.points.len() as u64);
        res.add("evictions", out.evictions);
        res.add("memory_hits", out.hits);
        res.max("max_enabled", ctx.points.iter().map(|p| p.n).max().unwrap_or(0) as u64);
        res.fp(out.log_fp);
        // alternatives
        let mut cost = 0usize;
        let mut costs = vec![];
        for p in ctx.points.iter() {
            costs.push(cost);
            if p.chosen != 0 && !p.free {
                cost += 1;
            }
        }
        res.max("max_preemptions", cost as u64);
        for i in (plen..ctx.points.len()).rev() {
            let p = ctx.points[i];
            if p.n <= 1 {
                continue;
            }
            let extra = if p.free { 0 } else { 1 };
            if costs[i] + extra > job.bound {
                continue;
            }
            for alt in (1..p.n).rev() {
                let mut np: Vec<u32> = ctx.points[..i].iter().map(|q| q.chosen).collect();
                np.push(alt);
                stack.push(np);
            }
        }
        let mut stop = false;
        for (clause, msg) in out.complaints {
            if !prop.owned.iter().any(|o| clause.starts_with(o)) {
                res.add("foreign_clause_complaints", 1);
                if std::env::var_os("VERIF_SHOW_FOREIGN").is_some() {
                    eprintln!("foreign {clause}: {msg} [{:?}]", job.threads);
                }
                continue;
            }
            let signature = sig(&clause, job);
            if !res.violations.iter().any(|v| v.signature == signature) {
                res.violations.push(Violation {
                    property: prop.id.into(),
                    clause: clause.clone(),
                    signature,
                    message: format!("{msg}  [prologue {:?}; threads {:?}; {} shards {} capacity {}; {} preemptions]", job.prologue, job.threads, job.algo.name(), job.shards, job.capacity, cost),
                    witness: json!({"engine": "T", "job": job, "choices": ctx.choices()}),
                });
            }
            stop = true;
        }
        if stop {
            if res.violations.len() >= 4 {
                keep = false;
            }
            break;
        }
    }
    keep
}

fn programs(tier: Tier) -> Vec<(Vec<TOp>, Vec<Vec<TOp>>)> {
    // keys 4 and 8 share a shard for 1, 2 and 4 shards; key 5 lives in another shard when shards > 1
    let a = 4u64;
    let b = 8u64;
    let c = 5u64;
    let ops_a = vec![
        TOp::Ins { k: a },
        TOp::Rm { k: a },
        TOp::Get { k: a, hold: false },
        TOp::Get { k: a, hold: true },
        TOp::Touch { k: a },
        TOp::Fetch { k: a },
    ];
    let mut extra = vec![TOp::Ins { k: b }, TOp::Ins { k: c }, TOp::Clear, TOp::EvictAll, TOp::Contains { k: a }, TOp::Resize { c: 1 }];
    if tier == Tier::Thorough {
        extra.push(TOp::Resize { c: 4 });
    }
    let mut progs = vec![];
    let prologues: Vec<Vec<TOp>> = vec![vec![], vec![TOp::Ins { k: a }], vec![TOp::Ins { k: a }, TOp::Get { k: a, hold: true }]];
    // two threads, one op each (all pairs over ops_a + extra), and two ops for thread 1
    let all: Vec<TOp> = ops_a.iter().chain(extra.iter()).copied().collect();
    for pro in prologues.iter() {
        for (i, x) in all.iter().enumerate() {
            for y in all.iter().skip(i) {
                // two resizes against each other: six threads, and which capacity a shard ends with is unspecified
                if matches!((x, y), (TOp::Resize { .. }, TOp::Resize { .. })) {
                    continue;
                }
                progs.push((pro.clone(), vec![vec![*x], vec![*y]]));
            }
        }
    }
    // two threads, two ops vs one op on the contended key
    for pro in prologues.iter().take(2) {
        for x1 in ops_a.iter() {
            for x2 in all.iter() {
                for y in ops_a.iter() {
                    if tier == Tier::Quick && !(matches!(x1, TOp::Get { .. } | TOp::Rm { .. }) || matches!(y, TOp::Ins { .. })) {
                        continue;
                    }
                    progs.push((pro.clone(), vec![vec![*x1, *x2], vec![*y]]));
                }
            }
        }
    }
    // three threads: the pin / unpin / evict race and friends
    progs.push((
        vec![TOp::Ins { k: a }],
        vec![
            vec![TOp::Get { k: a, hold: false }],
            vec![TOp::Get { k: a, hold: true }],
            vec![TOp::Ins { k: b }, TOp::Ins { k: 12 }],
        ],
    ));
    progs.push((
        vec![TOp::Ins { k: a }],
        vec![vec![TOp::Touch { k: a }], vec![TOp::Get { k: a, hold: true }], vec![TOp::Ins { k: b }, TOp::Ins { k: 12 }]],
    ));
    if tier == Tier::Thorough {
        for x in ops_a.iter() {
            for y in ops_a.iter() {
                progs.push((vec![TOp::Ins { k: a }], vec![vec![*x], vec![*y], vec![TOp::Ins { k: b }]]));
            }
        }
    }
    progs
}

fn jobs(tier: Tier) -> Vec<TJob> {
    let mut v = vec![];
    let algos: Vec<Algo> = match tier {
        Tier::Quick => vec![Algo::Lru { ratio: 0.9 }, Algo::S3Fifo { small: 0.1, ghost: 1.0, threshold: 1 }, Algo::Fifo],
        Tier::Thorough => Algo::defaults(),
    };
    let shapes: Vec<(usize, usize)> = match tier {
        Tier::Quick => vec![(1, 2)],
        Tier::Thorough => vec![(1, 1), (1, 2), (2, 4), (4, 8)],
    };
    for algo in algos {
        for (shards, capacity) in shapes.iter() {
            for (pro, threads) in programs(tier) {
                let three = threads.len() >= 3;
                v.push(TJob {
                    algo,
                    shards: *shards,
                    capacity: *capacity,
                    prologue: pro,
                    threads,
                    zero_weight_key: None,
                    atomic_points: false,
                reject_fetched: false,
                collide: false,
                    bound: match tier {
                        Tier::Quick => 2,
                        Tier::Thorough => {
                            if three {
                                2
                            } else {
                                3
                            }
                        }
                    },
                });
            }
        }
    }
    // Atomic operations on record reference counts / flags as scheduling points too (the handle paths that run
    // outside the shard lock): all pairs of single operations on the contended key, and the 2-vs-1 programs.
    let aalgos: Vec<Algo> = if tier == Tier::Quick { vec![Algo::Lru { ratio: 0.9 }, Algo::Fifo] } else { Algo::defaults() };
    for algo in aalgos {
        for (pro, threads) in programs(tier) {
            if threads.len() >= 3 || threads.iter().flatten().any(|o| matches!(o, TOp::Resize { .. } | TOp::Clear | TOp::EvictAll | TOp::Contains { .. })) {
                continue;
            }
            if tier == Tier::Quick && threads.iter().map(|t| t.len()).sum::<usize>() > 2 {
                continue;
            }
            v.push(TJob { algo, shards: 1, capacity: 2, prologue: pro, threads, bound: 2, zero_weight_key: None, atomic_points: true, reject_fetched: false, collide: false });
        }
    }
    // Keys 4 and 8 collide on the full 64-bit hash: all pairs of single operations in which the other key takes
    // part, from the states "4 present" and "4 present and held".
    let calgos: Vec<Algo> = if tier == Tier::Quick { vec![Algo::Fifo, Algo::Lru { ratio: 0.9 }] } else { Algo::defaults() };
    for algo in calgos {
        for (pro, threads) in programs(tier) {
            let uses_b = threads.iter().flatten().any(|o| matches!(o, TOp::Ins { k: 8 }));
            if !uses_b || threads.len() >= 3 || threads.iter().map(|t| t.len()).sum::<usize>() > 2 || pro.is_empty() {
                continue;
            }
            // the other key is inserted, looked up and removed as well
            for second in [TOp::Ins { k: 8 }, TOp::Rm { k: 8 }, TOp::Get { k: 8, hold: false }] {
                let mut th = threads.clone();
                for t in th.iter_mut() {
                    for o in t.iter_mut() {
                        if matches!(o, TOp::Ins { k: 8 }) {
                            *o = second;
                        }
                    }
                }
                let mut pro2 = pro.clone();
                if !matches!(second, TOp::Ins { .. }) {
                    pro2.push(TOp::Ins { k: 8 });
                }
                v.push(TJob { algo, shards: 1, capacity: 4, prologue: pro2, threads: th, bound: 2, zero_weight_key: None, atomic_points: false, reject_fetched: false, collide: true });
            }
        }
    }
    // Zero-weight entries of the contended key (usage does not tell whether a shard is empty): all pairs
    // of single operations and the 2-vs-1 programs, FIFO [thorough: every algorithm], one shard.
    let zalgos: Vec<Algo> = if tier == Tier::Quick { vec![Algo::Fifo] } else { Algo::defaults() };
    for algo in zalgos {
        for (pro, threads) in programs(tier) {
            if threads.len() >= 3 {
                continue;
            }
            v.push(TJob { algo, shards: 1, capacity: 2, prologue: pro, threads, bound: 2, zero_weight_key: Some(4), atomic_points: false, reject_fetched: false, collide: false });
        }
    }
    v
}

impl Prop for TProp {
    fn id(&self) -> &'static str {
        self.id
    }

    fn worker(&self, tier: Tier, shard: (usize, usize), deadline: Instant) -> ShardResult {
        let mut res = ShardResult::default();
        let js = (self.jobs)(tier);
        if shard.0 == 0 {
            res.add("jobs_total", js.len() as u64);
        }
        let so = Arc::new(Mutex::new(Some(std::path::PathBuf::new())));
        for (i, job) in js.iter().enumerate() {
            if i % shard.1 != shard.0 {
                continue;
            }
            if Instant::now() >= deadline {
                res.capped = true;
                res.notes.insert("wall cap reached before all thread programs were explored".into());
                break;
            }
            if res.samples.len() < 2 {
                res.sample(json!({"engine": "T", "job": job}), 2);
            }
            res.add("programs", 1);
            let before = res.get("executions");
            let t0 = Instant::now();
            let keep = explore_job(self, job, &mut res, deadline, &so);
            if std::env::var_os("VERIF_T_STATS").is_some() {
                eprintln!("T job {i}: {} executions in {:.2}s :: {:?} {:?} {} shards{} bound{}", res.get("executions") - before, t0.elapsed().as_secs_f64(), job.prologue, job.threads, job.algo.short(), job.shards, job.bound);
            }
            if !keep {
                break;
            }
        }
        res
    }

    fn replay(&self, witness: &Value, verbose: bool) -> Vec<Violation> {
        let job: TJob = serde_json::from_value(witness["job"].clone()).expect("job");
        let choices: Vec<u32> = serde_json::from_value(witness["choices"].clone()).expect("choices");
        let ctx = Arc::new(Mutex::new(Ctx::new(choices).with_trace(verbose)));
        let pid = self.id;
        let dsig = sig("K.deadlock", &job);
        let handler: sched::DeadlockHandler = Box::new(move |desc: &str| {
            println!("REPLAY property={pid} clause=K.deadlock signature={dsig} :: threads deadlocked: {desc}");
            println!("VIOLATION property={pid} replay=<this file>");
            std::process::exit(1);
        });
        let out = execute(&job, ctx.clone(), handler);
        let c = ctx.lock().unwrap();
        if let Some(d) = &c.diverged {
            eprintln!("MACHINERY: {d}");
            std::process::exit(vcore::EXIT_MACHINERY);
        }
        if verbose {
            println!("replaying C02 prologue {:?} threads {:?} on {} ({} shards)", job.prologue, job.threads, job.algo.name(), job.shards);
            for l in c.labels.iter() {
                println!("  {l}");
            }
        }
        let mut vs = vec![];
        for (clause, msg) in out.complaints {
            if !self.owned.iter().any(|o| clause.starts_with(o)) {
                continue;
            }
            let signature = sig(&clause, &job);
            if !vs.iter().any(|v: &Violation| v.signature == signature) {
                vs.push(Violation {
                    property: self.id.into(),
                    clause,
                    signature,
                    message: msg,
                    witness: witness.clone(),
                });
            }
        }
        vs
    }

    fn rule(&self) -> String {
        if !self.rule.is_empty() {
            return self.rule.to_string();
        }
        "Engine T: the real foyer-memory cache with its parking_lot locks replaced by a facade whose acquire/release are scheduling points of a cooperative scheduler (one OS thread runs at a time). Programs: all unordered pairs of single operations over {insert, remove, get, get-and-hold, touch on a contended key; insert of a same-shard and an other-shard key, clear, evict_all, contains} for two threads, two-operation vs one-operation programs on the contended key, and three-thread programs (lookup / lookup-and-hold / evicting inserts), from three initial states (empty, key present, key present with a looked-up handle held by the main thread); LRU, S3-FIFO, FIFO (quick) / all five (thorough); shards 1 (quick) / 1,2,4 (thorough), capacity small enough that eviction happens. Every interleaving with at most 2 (quick) / 3 (thorough, 2-thread) preemptions is executed; switches at blocking points are free. Oracle: (statement form) a lookup or remove returns nothing or the value of an insert of that key not superseded by an insert/remove/clear that completed before the lookup started; held handles re-read unchanged; under LRU no looked-up, still-held entry is evicted; no deadlock (no enabled thread) and no panic; usage() == entries() at the end. distinct = distinct vector of per-operation results.".into()
    }

    fn assumptions(&self) -> Vec<String> {
        vec![
            "scheduling points are lock operations in every job and, in the jobs marked atomic_points, also every atomic operation on a record's reference count / flags (foyer-memory's verif seam); per-record eviction-algorithm atomics (S3-FIFO frequency, SIEVE visited bit) are not split; only sequentially consistent outcomes are modelled".into(),
            "resize() helper threads are controlled threads (spawner seam); two resizes are not run against each other".into(),
        ]
    }

    fn bounds(&self, tier: Tier) -> Value {
        let js = (self.jobs)(tier);
        json!({"thread_programs": js.len(), "max_threads": 3, "preemption_bound": js.iter().map(|j| j.bound).max()})
    }

    fn vacuity(&self, _tier: Tier, r: &ShardResult) -> Vec<String> {
        let mut v = vec![];
        if r.get("executions") == 0 || r.get("context_switches") == 0 {
            v.push("no interleaving was explored".into());
        }
        if r.get("memory_hits") == 0 {
            v.push("no lookup ever hit".into());
        }
        if r.get("evictions") == 0 {
            v.push("no eviction ever happened".into());
        }
        if r.fingerprints.len() < 2 {
            v.push("fewer than two distinct outcomes".into());
        }
        v
    }

    fn wall_cap(&self, tier: Tier) -> Duration {
        match tier {
            Tier::Quick => Duration::from_secs(150),
            Tier::Thorough => Duration::from_secs(1500),
        }
    }
}
