//! Engine S exploration: (1) every operation sequence over an alphabet up to a depth, unpruned;
//! (2) explicit-state breadth-first search with deduplication on the reference model's complete state.
//! A state is the history reaching it (live caches do not clone): every transition rebuilds a fresh
//! cache and replays. See DESIGN.md §2.2.

use std::time::Instant;
use std::collections::HashSet;

use serde_json::{json, Value};
use vcore::evidence::{ShardResult, Violation};

use crate::{
    memdrive::{seq_text, Driver, MemCfg, Op},
    memmodel::Complaint,
};

#[derive(Debug, Clone)]
pub struct SeqJob {
    pub property: &'static str,
    /// Clause prefixes this property owns, e.g. `["W."]`.
    pub owned: Vec<&'static str>,
    pub cfg: MemCfg,
    pub universe: Vec<u64>,
    pub prologue: Vec<Op>,
    pub alphabet: Vec<Op>,
    pub depth1: usize,
    pub depth2: usize,
    pub max_states: usize,
    /// `resize()` used to spawn and join one OS thread per shard (~0.5 ms per thread in this sandbox, not
    /// parallelisable across processes), so the number of `resize` calls was budgeted explicitly. With
    /// foyer-memory's `verif` spawner seam the per-shard jobs run inline and the budgets are lifted (99)
    /// wherever the alphabet contains `resize`. Pass 1: sequences of length <= `resize_any_depth` may contain `resize`
    /// anywhere; sequences of length <= `resize_last_depth` may end with one. Pass 2: histories
    /// containing a `resize` are explored up to length `resize2_depth`.
    pub resize_any_depth: usize,
    pub resize_last_depth: usize,
    pub resize2_depth: usize,
    /// Run the epilogue (drop handles, fresh inserts, drop cache).
    pub epilogue: bool,
}

impl SeqJob {
    pub fn describe(&self) -> Value {
        json!({"engine": "S", "property": self.property, "cfg": self.cfg.to_json(), "universe": self.universe,
               "prologue": self.prologue.iter().map(|o| o.text()).collect::<Vec<_>>()})
    }

    fn owns(&self, clause: &str) -> bool {
        self.owned.iter().any(|p| clause.starts_with(p))
    }
}

pub enum RunEnd {
    Ok,
    /// An operation was not applicable (slot op on an empty slot): the sequence is not part of the space.
    Pruned,
    /// Complaints at step `step` (index into prologue+ops, or usize::MAX for the epilogue).
    Failed { step: usize, complaints: Vec<Complaint> },
}

/// Differential run for caches *without* an event listener (the ledger oracle follows the victims the
/// listener reports, so it cannot judge them): the same sequence is executed on a cache with a listener
/// (judged by the ordinary oracle in the jobs that have one) and on one without; after every step both
/// must have offered the same multiset of (key, value, channel) to the pipe, and nothing may panic.
fn run_diff(job: &SeqJob, ops: &[Op], res: &mut ShardResult) -> (RunEnd, Option<Driver>) {
    let mut cfg_ref = job.cfg.clone();
    cfg_ref.no_listener = false;
    let mut dr = Driver::new(cfg_ref, job.universe.clone());
    let mut dn = Driver::new(job.cfg.clone(), job.universe.clone());
    let all: Vec<Op> = job.prologue.iter().chain(ops.iter()).copied().collect();
    let compare = |dr: &Driver, dn: &Driver, what: &str| -> Vec<Complaint> {
        let mut a = dr.rec.pipe_log.lock().unwrap().clone();
        let mut b = dn.rec.pipe_log.lock().unwrap().clone();
        a.sort();
        b.sort();
        if a == b {
            return vec![];
        }
        let missing = a.iter().any(|x| !b.contains(x)) || b.len() < a.len();
        vec![(
            if missing { "L.pipe-missing" } else { "L.pipe-spurious" },
            format!("{what}: a cache without an event listener offered {b:?} (key, value, via flush) to the pipe; the same sequence on a cache with a listener offered {a:?}"),
        )]
    };
    for (i, op) in all.iter().enumerate() {
        if !dr.applicable(op) || !dn.applicable(op) {
            return (RunEnd::Pruned, None);
        }
        if !dr.step(op).is_empty() {
            // the reference run itself is judged (and reported) by the jobs with a listener
            return (RunEnd::Pruned, None);
        }
        let mut c: Vec<Complaint> = dn.step(op).into_iter().filter(|c| c.0.starts_with("X.") || c.0.starts_with("K.")).collect();
        res.add("steps", 2);
        c.extend(compare(&dr, &dn, &op.text()));
        if !c.is_empty() {
            return (RunEnd::Failed { step: i, complaints: c }, Some(dn));
        }
    }
    res.add("evictions", dr.n_evictions);
    res.add("memory_hits", dr.n_hits);
    res.add("differential_runs", 1);
    res.fp(vcore::fingerprint(&(dn.rec.pipe_log.lock().unwrap().clone(), dr.observation())));
    if job.epilogue {
        let _ = dr.teardown();
        let mut c: Vec<Complaint> = dn.teardown();
        c.extend(compare(&dr, &dn, "epilogue (handles dropped, cache dropped)"));
        if !c.is_empty() {
            return (RunEnd::Failed { step: usize::MAX, complaints: c }, Some(dn));
        }
    }
    (RunEnd::Ok, None)
}

/// Run prologue + ops on a fresh cache.
pub fn run_once(job: &SeqJob, ops: &[Op], res: &mut ShardResult) -> (RunEnd, Option<Driver>) {
    if job.cfg.no_listener && job.cfg.pipe && job.property == "C13" {
        return run_diff(job, ops, res);
    }
    let mut d = Driver::new(job.cfg.clone(), job.universe.clone());
    let all: Vec<Op> = job.prologue.iter().chain(ops.iter()).copied().collect();
    for (i, op) in all.iter().enumerate() {
        if !d.applicable(op) {
            return (RunEnd::Pruned, None);
        }
        let c = d.step(op);
        res.add("steps", 1);
        if !c.is_empty() {
            return (RunEnd::Failed { step: i, complaints: c }, Some(d));
        }
    }
    res.add("evictions", d.n_evictions);
    res.add("memory_hits", d.n_hits);
    res.add("leave_events", d.n_events);
    (RunEnd::Ok, Some(d))
}

fn report(job: &SeqJob, ops: &[Op], step: usize, complaints: Vec<Complaint>, res: &mut ShardResult) -> bool {
    let all: Vec<Op> = job.prologue.iter().chain(ops.iter()).copied().collect();
    let failing = if step == usize::MAX { "epilogue".to_string() } else { all[step].text() };
    let failing_kind = failing.split('(').next().unwrap_or("").to_string();
    let mut any_owned = false;
    for (clause, msg) in complaints {
        if !job.owns(clause) {
            res.add("foreign_clause_complaints", 1);
            res.notes.insert(format!("complaint of a clause this property does not own was ignored: {clause}"));
            continue;
        }
        any_owned = true;
        let signature = format!("{clause}|{}|at:{failing_kind}", job.cfg.algo.short());
        if res.violations.iter().any(|v| v.signature == signature) {
            continue;
        }
        let upto = if step == usize::MAX { all.len() } else { step + 1 };
        // Only the operations up to the failing step are needed to reproduce it.
        let keep = if step == usize::MAX { ops.len() } else { (step + 1).saturating_sub(job.prologue.len()) };
        let ops_kept: Vec<String> = ops[..keep.min(ops.len())].iter().map(|o| o.text()).collect();
        res.violations.push(Violation {
            property: job.property.to_string(),
            clause: clause.to_string(),
            signature,
            message: format!("{msg}  [after: {}]", seq_text(&all[..upto])),
            witness: json!({
                "engine": "S",
                "cfg": job.cfg.to_json(),
                "universe": job.universe,
                "prologue": job.prologue.iter().map(|o| o.text()).collect::<Vec<_>>(),
                "ops": ops_kept,
                "failing_step": failing,
                "epilogue": job.epilogue,
            }),
        });
    }
    any_owned
}

/// Handle the end of one run. Returns `false` if the job should stop (violation budget exhausted).
fn finish_run(job: &SeqJob, ops: &[Op], end: RunEnd, d: Option<Driver>, res: &mut ShardResult) -> bool {
    match end {
        RunEnd::Pruned => {
            res.add("pruned_sequences", 1);
            true
        }
        RunEnd::Failed { step, complaints } => {
            res.add("executions", 1);
            report(job, ops, step, complaints, res);
            res.violations.len() < 8
        }
        RunEnd::Ok => {
            res.add("executions", 1);
            // differential runs have done their own epilogue and fingerprint
            let Some(mut d) = d else { return true };
            res.fp(vcore::fingerprint(&d.observation()));
            if job.epilogue {
                let c = d.finish();
                if !c.is_empty() {
                    report(job, ops, usize::MAX, c, res);
                    return res.violations.len() < 8;
                }
            }
            true
        }
    }
}

/// Pass 1: all sequences of every length 1..=depth1. `shard = (i, n)` selects sequences by index.
pub fn pass1(job: &SeqJob, shard: (usize, usize), counter: &mut u64, res: &mut ShardResult, deadline: Instant) -> bool {
    let a = job.alphabet.len();
    let mut own = 0u64;
    for len in 1..=job.depth1 {
        let mut idx = vec![0usize; len];
        'outer: loop {
            let mine = (*counter as usize) % shard.1 == shard.0;
            *counter += 1;
            let ops: Vec<Op> = idx.iter().map(|i| job.alphabet[*i]).collect();
            let resizes = ops.iter().filter(|o| matches!(o, Op::Resize { .. })).count();
            let allowed = resizes == 0
                || len <= job.resize_any_depth
                || (resizes == 1 && matches!(ops[len - 1], Op::Resize { .. }) && len <= job.resize_last_depth);
            if mine && allowed {
                own += 1;
                if own % 64 == 0 && Instant::now() >= deadline {
                    res.capped = true;
                    res.notes.insert("wall cap reached inside pass 1 of a job".into());
                    return false;
                }
                let (end, d) = run_once(job, &ops, res);
                res.add("pass1_sequences", 1);
                if res.samples.len() < 3 && matches!(end, RunEnd::Ok) && len == job.depth1 {
                    res.sample(
                        json!({"engine": "S", "pass": 1, "cfg": job.cfg.algo.name(), "sequence": seq_text(&ops)}),
                        3,
                    );
                }
                if !finish_run(job, &ops, end, d, res) {
                    return false;
                }
            }
            // odometer
            let mut p = len;
            loop {
                if p == 0 {
                    break 'outer;
                }
                p -= 1;
                idx[p] += 1;
                if idx[p] < a {
                    break;
                }
                idx[p] = 0;
            }
        }
    }
    res.max("pass1_depth", job.depth1 as u64);
    true
}

/// Pass 2: breadth-first search with deduplication on the reference state.
pub fn pass2(job: &SeqJob, res: &mut ShardResult, deadline: Instant) -> bool {
    if job.depth2 == 0 {
        return true;
    }
    let mut seen: HashSet<Vec<u64>> = HashSet::new();
    let mut frontier: Vec<Vec<Op>> = vec![vec![]];
    {
        let (end, d) = run_once(job, &[], res);
        match (end, d) {
            (RunEnd::Ok, Some(d)) => {
                seen.insert(d.state_key());
            }
            (end, d) => {
                return finish_run(job, &[], end, d, res);
            }
        }
    }
    let mut fixpoint = false;
    let mut depth_done = 0;
    for depth in 1..=job.depth2 {
        let mut next: Vec<Vec<Op>> = vec![];
        for hist in frontier.iter() {
            if Instant::now() >= deadline {
                res.capped = true;
                res.notes.insert(format!("wall cap reached inside pass 2 of a job at depth {depth}"));
                res.add("pass2_states", seen.len() as u64);
                res.max("pass2_depth", depth_done as u64);
                return false;
            }
            for op in job.alphabet.iter() {
                let mut ops = hist.clone();
                ops.push(*op);
                if ops.iter().any(|o| matches!(o, Op::Resize { .. })) && ops.len() > job.resize2_depth {
                    continue;
                }
                let (end, d) = run_once(job, &ops, res);
                match end {
                    RunEnd::Pruned => continue,
                    RunEnd::Ok => {
                        res.add("pass2_transitions", 1);
                        res.add("executions", 1);
                        let mut d = d.unwrap();
                        let key = d.state_key();
                        res.fp(vcore::fingerprint(&key));
                        let fresh = seen.insert(key);
                        if fresh {
                            if job.epilogue {
                                let c = d.finish();
                                if !c.is_empty() {
                                    report(job, &ops, usize::MAX, c, res);
                                    if res.violations.len() >= 8 {
                                        return false;
                                    }
                                    continue;
                                }
                            }
                            if seen.len() < job.max_states {
                                next.push(ops);
                            } else {
                                res.capped = true;
                                res.notes.insert(format!("pass 2 state cap {} reached", job.max_states));
                            }
                        }
                    }
                    RunEnd::Failed { .. } => {
                        res.add("pass2_transitions", 1);
                        if !finish_run(job, &ops, end, d, res) {
                            return false;
                        }
                    }
                }
            }
        }
        depth_done = depth;
        if next.is_empty() {
            fixpoint = true;
            break;
        }
        frontier = next;
    }
    res.add("pass2_states", seen.len() as u64);
    res.max("pass2_depth", depth_done as u64);
    if fixpoint {
        res.add("pass2_fixpoints", 1);
    } else {
        res.add("pass2_depth_bounded", 1);
    }
    if res.samples.len() < 6 {
        if let Some(h) = frontier.last() {
            res.sample(
                json!({"engine": "S", "pass": 2, "cfg": job.cfg.algo.name(), "deepest_history": seq_text(h), "states": seen.len(), "fixpoint": fixpoint}),
                6,
            );
        }
    }
    true
}

/// Re-run one recorded sequence (replay files).
pub fn replay_one(job: &SeqJob, ops: &[Op], res: &mut ShardResult) {
    let (end, d) = run_once(job, ops, res);
    finish_run(job, ops, end, d, res);
}
