//! `simio` — an `IoEngine` whose requests stay pending until the explorer completes, fails or
//! tears them (DESIGN.md §2.3). Written entirely against foyer's public `IoEngine` trait; the only
//! source hook it needs is the `verif` feature that re-exports the buffer / partition type names.
//!
//! A request is logged at *submission* (with a copy of the data for writes). Completion performs the
//! `pread` / `pwrite` on the partition's file descriptor, so device images are the real partition
//! files of foyer's `FsDevice`.

use std::{
    future::Future,
    os::fd::RawFd,
    pin::Pin,
    sync::{Arc, Mutex},
    task::{Context, Poll, Waker},
};

use foyer_common::error::{Error, ErrorKind, Result};
use foyer_storage::{
    verif::{IoB, IoBuf, IoBufMut, IoEngineBuildContext, Partition},
    IoEngine, IoEngineConfig, IoHandle,
};
use futures_util::{future::BoxFuture, FutureExt};

pub const PAGE: usize = 4096;

#[derive(Debug, Clone, Copy, PartialEq, Eq)]
pub enum IoKind {
    Read,
    Write,
}

#[derive(Debug, Clone, PartialEq, Eq)]
pub enum IoOutcome {
    Pending,
    Done,
    Failed,
    /// Only the listed pages (indices within the request) reached the device; the request never completed.
    Torn(Vec<usize>),
    /// The issuing future was dropped before completion.
    Cancelled,
}

#[derive(Debug, Clone)]
pub struct IoRec {
    pub id: usize,
    pub kind: IoKind,
    pub part: u32,
    pub offset: u64,
    pub len: usize,
    /// Copy of the data taken at submission (writes only).
    pub data: Option<Arc<Vec<u8>>>,
    pub submitted_at: u64,
    pub completed_at: Option<u64>,
    pub outcome: IoOutcome,
}

struct Slot {
    result: Option<Result<()>>,
    waker: Option<Waker>,
}

struct Pending {
    id: usize,
    fd: RawFd,
    ptr: usize,
    slot: Arc<Mutex<Slot>>,
}

#[derive(Default)]
struct State {
    log: Vec<IoRec>,
    pending: Vec<Pending>,
    clock: u64,
    /// Complete requests at submission (used while opening / for uninteresting phases).
    auto: bool,
    /// Called (outside the state lock) after a request was queued as pending (thread engine: unpark the runtime thread).
    submit_hook: Option<Arc<dyn Fn() + Send + Sync>>,
}

#[derive(Clone, Default)]
pub struct SimIo {
    st: Arc<Mutex<State>>,
}

impl std::fmt::Debug for SimIo {
    fn fmt(&self, f: &mut std::fmt::Formatter<'_>) -> std::fmt::Result {
        f.write_str("SimIo")
    }
}

fn pread_all(fd: RawFd, buf: &mut [u8], offset: u64) -> std::io::Result<()> {
    use std::os::{
        fd::{BorrowedFd, AsRawFd},
        unix::fs::FileExt,
    };
    let _ = BorrowedFd::as_raw_fd;
    let file = std::mem::ManuallyDrop::new(unsafe { <std::fs::File as std::os::fd::FromRawFd>::from_raw_fd(fd) });
    file.read_exact_at(buf, offset)
}

fn pwrite_all(fd: RawFd, buf: &[u8], offset: u64) -> std::io::Result<()> {
    use std::os::unix::fs::FileExt;
    let file = std::mem::ManuallyDrop::new(unsafe { <std::fs::File as std::os::fd::FromRawFd>::from_raw_fd(fd) });
    file.write_all_at(buf, offset)
}

impl SimIo {
    pub fn new() -> Self {
        Self::default()
    }

    pub fn set_auto(&self, auto: bool) {
        self.st.lock().unwrap().auto = auto;
    }

    pub fn set_submit_hook(&self, hook: Option<Arc<dyn Fn() + Send + Sync>>) {
        self.st.lock().unwrap().submit_hook = hook;
    }

    pub fn set_clock(&self, t: u64) {
        self.st.lock().unwrap().clock = t;
    }

    /// Ids of pending requests in submission order.
    pub fn pending(&self) -> Vec<usize> {
        self.st.lock().unwrap().pending.iter().map(|p| p.id).collect()
    }

    pub fn rec(&self, id: usize) -> IoRec {
        self.st.lock().unwrap().log[id].clone()
    }

    pub fn log(&self) -> Vec<IoRec> {
        self.st.lock().unwrap().log.clone()
    }

    pub fn log_len(&self) -> usize {
        self.st.lock().unwrap().log.len()
    }

    fn finish(&self, id: usize, outcome: IoOutcome, result: Result<()>) {
        let (slot, waker) = {
            let mut st = self.st.lock().unwrap();
            let Some(pos) = st.pending.iter().position(|p| p.id == id) else {
                return;
            };
            let p = st.pending.remove(pos);
            let clock = st.clock;
            let rec = &mut st.log[id];
            rec.outcome = outcome;
            rec.completed_at = Some(clock);
            let w = {
                let mut s = p.slot.lock().unwrap();
                s.result = Some(result);
                s.waker.take()
            };
            (p.slot, w)
        };
        drop(slot);
        if let Some(w) = waker {
            w.wake();
        }
    }

    /// Perform the request against the file and resolve its future successfully.
    pub fn complete(&self, id: usize) {
        let (fd, ptr, rec) = {
            let st = self.st.lock().unwrap();
            let Some(p) = st.pending.iter().find(|p| p.id == id) else {
                return;
            };
            (p.fd, p.ptr, st.log[id].clone())
        };
        let res = match rec.kind {
            IoKind::Write => pwrite_all(fd, rec.data.as_ref().unwrap(), rec.offset),
            IoKind::Read => {
                let buf = unsafe { std::slice::from_raw_parts_mut(ptr as *mut u8, rec.len) };
                pread_all(fd, buf, rec.offset)
            }
        };
        match res {
            Ok(()) => self.finish(id, IoOutcome::Done, Ok(())),
            Err(e) => self.finish(id, IoOutcome::Failed, Err(Error::io_error(e))),
        }
    }

    /// Resolve the request with an I/O error; nothing reaches the device.
    pub fn fail(&self, id: usize) {
        self.finish(
            id,
            IoOutcome::Failed,
            Err(Error::new(ErrorKind::Io, "simio: injected I/O error")),
        );
    }

    fn cancel(&self, id: usize) {
        let mut st = self.st.lock().unwrap();
        if let Some(pos) = st.pending.iter().position(|p| p.id == id) {
            st.pending.remove(pos);
            st.log[id].outcome = IoOutcome::Cancelled;
        }
    }

    fn submit(&self, kind: IoKind, part: u32, fd: RawFd, offset: u64, ptr: usize, len: usize, data: Option<Vec<u8>>) -> SimIoFuture {
        let slot = Arc::new(Mutex::new(Slot {
            result: None,
            waker: None,
        }));
        let (id, auto, hook) = {
            let mut st = self.st.lock().unwrap();
            let id = st.log.len();
            let clock = st.clock;
            st.log.push(IoRec {
                id,
                kind,
                part,
                offset,
                len,
                data: data.map(Arc::new),
                submitted_at: clock,
                completed_at: None,
                outcome: IoOutcome::Pending,
            });
            st.pending.push(Pending {
                id,
                fd,
                ptr,
                slot: slot.clone(),
            });
            (id, st.auto, st.submit_hook.clone())
        };
        if auto {
            self.complete(id);
        } else if let Some(h) = hook {
            h();
        }
        SimIoFuture {
            io: self.clone(),
            id,
            slot,
            done: false,
        }
    }
}

struct SimIoFuture {
    io: SimIo,
    id: usize,
    slot: Arc<Mutex<Slot>>,
    done: bool,
}

impl Future for SimIoFuture {
    type Output = Result<()>;

    fn poll(mut self: Pin<&mut Self>, cx: &mut Context<'_>) -> Poll<Result<()>> {
        let r = {
            let mut s = self.slot.lock().unwrap();
            match s.result.take() {
                Some(r) => Some(r),
                None => {
                    s.waker = Some(cx.waker().clone());
                    None
                }
            }
        };
        match r {
            Some(r) => {
                self.done = true;
                Poll::Ready(r)
            }
            None => Poll::Pending,
        }
    }
}

impl Drop for SimIoFuture {
    fn drop(&mut self) {
        if !self.done {
            self.io.cancel(self.id);
        }
    }
}

impl IoEngine for SimIo {
    fn read(&self, buf: Box<dyn IoBufMut>, partition: &dyn Partition, offset: u64) -> IoHandle {
        let (raw, off) = partition.translate(offset);
        let (ptr, len) = buf.as_raw_parts();
        let fut = self.submit(IoKind::Read, partition.id(), raw.0, off, ptr as usize, len, None);
        let f: BoxFuture<'static, (Box<dyn IoB>, Result<()>)> = async move {
            let res = fut.await;
            let buf: Box<dyn IoB> = buf.into_iob();
            (buf, res)
        }
        .boxed();
        f.into()
    }

    fn write(&self, buf: Box<dyn IoBuf>, partition: &dyn Partition, offset: u64) -> IoHandle {
        let (raw, off) = partition.translate(offset);
        let (ptr, len) = buf.as_raw_parts();
        let data = unsafe { std::slice::from_raw_parts(ptr as *const u8, len) }.to_vec();
        let fut = self.submit(IoKind::Write, partition.id(), raw.0, off, ptr as usize, len, Some(data));
        let f: BoxFuture<'static, (Box<dyn IoB>, Result<()>)> = async move {
            let res = fut.await;
            let buf: Box<dyn IoB> = buf.into_iob();
            (buf, res)
        }
        .boxed();
        f.into()
    }
}

#[derive(Debug)]
pub struct SimIoConfig {
    pub io: SimIo,
}

impl IoEngineConfig for SimIoConfig {
    fn build(self: Box<Self>, _: IoEngineBuildContext) -> BoxFuture<'static, Result<Arc<dyn IoEngine>>> {
        let io = self.io.clone();
        async move { Ok(Arc::new(io) as Arc<dyn IoEngine>) }.boxed()
    }
}
