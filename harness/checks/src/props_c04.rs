//! C04 — recovery after a crash at any point is consistent (enumerator K over Engine V's IO logs).
//!
//! Every explored execution of a workload yields an ordered log of device writes (submission and
//! completion stamps). For every crash instant, every subset of the writes in flight at that instant
//! and page-granular tears of one of them, the device image is rebuilt, the real cache is reopened on
//! it (default quiet recovery) and every key is read back.

use std::{
    collections::{BTreeMap, HashSet},
    time::{Duration, Instant},
};

use serde::{Deserialize, Serialize};
use serde_json::{json, Value};
use vcore::{
    evidence::{ShardResult, Violation},
    explore, Ctx, ExploreLimits,
};

use crate::{
    disk::{self, Image},
    framework::{Prop, Tier},
    hyb::*,
    props_hyb::sequences,
    simio::{IoKind, IoOutcome, IoRec, PAGE},
};

#[derive(Debug, Clone, Serialize, Deserialize)]
pub struct C04Job {
    pub cfg: HybCfg,
    pub prog: Vec<HOp>,
    pub policy: BasePolicy,
    pub bound: usize,
    /// After recovery from a crash at the end of the first workload, run this and crash again.
    /// Workloads for the second crash/restart cycle (each runs on its own copy of the recovered cache).
    #[serde(default)]
    pub seconds: Vec<Vec<HOp>>,
}

pub struct C04Prop;

#[derive(Debug, Clone)]
struct Ev {
    key: u64,
    /// Some(ver) insert, None remove.
    ver: Option<u64>,
    /// When it reached the write queue.
    queued_at: u64,
}

#[derive(Debug, Clone)]
struct Expect {
    /// key -> acknowledged floor: Some(ver) = must read >= ver (not a miss); None = must not read any
    /// version <= `removed_upto`.
    floor: BTreeMap<u64, (Option<u64>, u64)>,
    /// Keys for which a delete was issued (not necessarily acknowledged) after the acknowledged
    /// insert and before the crash: the delete may or may not have taken effect, a miss is fine.
    miss_ok: HashSet<u64>,
    /// All versions ever inserted per key (for clause (a)).
    inserted: BTreeMap<u64, Vec<u64>>,
}

fn apply(img: &mut Image, r: &IoRec, pages: Option<&[usize]>) {
    let data = r.data.as_ref().expect("write without data");
    let part = &mut img.parts[r.part as usize];
    match pages {
        None => part[r.offset as usize..r.offset as usize + r.len].copy_from_slice(data),
        Some(ps) => {
            for p in ps {
                let a = p * PAGE;
                let b = ((p + 1) * PAGE).min(r.len);
                part[r.offset as usize + a..r.offset as usize + b].copy_from_slice(&data[a..b]);
            }
        }
    }
}

fn tears(npages: usize) -> Vec<Vec<usize>> {
    let mut v = vec![];
    if npages <= 1 {
        return v;
    }
    if npages <= 4 {
        for mask in 1u32..(1 << npages) - 1 {
            v.push((0..npages).filter(|i| mask & (1 << i) != 0).collect());
        }
    } else {
        for n in 1..npages {
            v.push((0..n).collect());
            v.push((n..npages).collect());
        }
        for i in 0..npages {
            v.push(vec![i]);
        }
        v.sort();
        v.dedup();
    }
    v
}

struct Crash {
    t: u64,
    image: Image,
    desc: String,
}

/// All crash images of one IO log.
fn crash_images(initial: &Image, log: &[IoRec], max_t: u64, with_tears: bool) -> Vec<Crash> {
    let writes: Vec<&IoRec> = log.iter().filter(|r| r.kind == IoKind::Write && r.outcome != IoOutcome::Cancelled).collect();
    let mut times: Vec<u64> = vec![0];
    for r in writes.iter() {
        times.push(r.submitted_at);
        if let Some(c) = r.completed_at {
            times.push(c);
        }
    }
    times.push(max_t);
    times.sort();
    times.dedup();
    let mut out = vec![];
    for t in times {
        let mut base = initial.clone();
        let mut done: Vec<&&IoRec> = writes
            .iter()
            .filter(|r| r.outcome == IoOutcome::Done && r.completed_at.map(|c| c <= t).unwrap_or(false))
            .collect();
        done.sort_by_key(|r| (r.completed_at, r.id));
        for r in done {
            apply(&mut base, r, None);
        }
        let inflight: Vec<&&IoRec> = writes
            .iter()
            .filter(|r| r.submitted_at <= t && r.completed_at.map(|c| c > t).unwrap_or(true) && r.outcome != IoOutcome::Failed)
            .collect();
        let n = inflight.len().min(4);
        for mask in 0u32..(1 << n) {
            let mut img = base.clone();
            let members: Vec<usize> = (0..n).filter(|i| mask & (1 << i) != 0).collect();
            for i in members.iter() {
                apply(&mut img, inflight[*i], None);
            }
            out.push(Crash {
                t,
                image: img,
                desc: format!("crash at t{t}, in-flight writes applied {:?} of {:?}", members.iter().map(|i| inflight[*i].id).collect::<Vec<_>>(), inflight.iter().map(|r| r.id).collect::<Vec<_>>()),
            });
            if with_tears {
                for torn in members.iter() {
                    let r = inflight[*torn];
                    for pages in tears(r.len.div_ceil(PAGE)) {
                        let mut img = base.clone();
                        for i in members.iter() {
                            if i != torn {
                                apply(&mut img, inflight[*i], None);
                            }
                        }
                        apply(&mut img, r, Some(&pages));
                        out.push(Crash {
                            t,
                            image: img,
                            desc: format!("crash at t{t}, write io{} torn to pages {:?}, others applied {:?}", r.id, pages, members.iter().filter(|i| *i != torn).map(|i| inflight[*i].id).collect::<Vec<_>>()),
                        });
                    }
                }
            }
        }
    }
    out
}

fn events_of(h: &History, cfg: &HybCfg) -> Vec<Ev> {
    let mut v = vec![];
    for w in h.writes.iter() {
        match w.kind {
            WKind::Insert { loc, .. } => {
                if loc == Loc::InMem {
                    continue;
                }
                let queued_at = if cfg.woi || loc == Loc::OnDisk {
                    Some(w.invoke)
                } else {
                    h.leaves.iter().find(|l| l.reason == 0 && l.key == w.key && l.ver == w.ver).map(|l| l.t)
                };
                if let Some(q) = queued_at {
                    v.push(Ev {
                        key: w.key,
                        ver: Some(w.ver),
                        queued_at: q,
                    });
                }
            }
            WKind::Remove => v.push(Ev {
                key: w.key,
                ver: None,
                queued_at: w.invoke,
            }),
            _ => {}
        }
    }
    v
}

fn expectation(h: &History, cfg: &HybCfg, t: u64) -> Expect {
    let evs = events_of(h, cfg);
    // wait() calls: (first poll, completion)
    let waits: Vec<(u64, u64)> = h.calls.iter().filter(|c| c.1 == "wait" && c.3.is_some()).map(|c| (c.2, c.3.unwrap())).collect();
    let mut floor: BTreeMap<u64, (Option<u64>, u64)> = BTreeMap::new();
    let mut latest_ver: BTreeMap<u64, u64> = BTreeMap::new();
    for e in evs.iter() {
        if let Some(v) = e.ver {
            let lv = latest_ver.entry(e.key).or_insert(0);
            *lv = (*lv).max(v);
        }
    }
    // Walk events in queue order; the latest acknowledged event per key defines the floor.
    let mut seen_ver: BTreeMap<u64, u64> = BTreeMap::new();
    for e in evs.iter() {
        if let Some(v) = e.ver {
            seen_ver.insert(e.key, v);
        }
        let acked = waits.iter().any(|(start, done)| *start > e.queued_at && *done <= t);
        if acked {
            match e.ver {
                Some(v) => {
                    floor.insert(e.key, (Some(v), 0));
                }
                None => {
                    if cfg.tombstone {
                        floor.insert(e.key, (None, seen_ver.get(&e.key).copied().unwrap_or(0)));
                    }
                }
            }
        }
    }
    let mut inserted: BTreeMap<u64, Vec<u64>> = BTreeMap::new();
    for w in h.writes.iter() {
        if matches!(w.kind, WKind::Insert { .. } | WKind::FetchInsert { .. }) {
            inserted.entry(w.key).or_default().push(w.ver);
        }
    }
    let mut miss_ok = HashSet::new();
    for e in evs.iter() {
        if e.ver.is_none() && e.queued_at <= t {
            miss_ok.insert(e.key);
        }
    }
    Expect { floor, inserted, miss_ok }
}

fn judge_reads(w: &World, from: usize, exp: &Expect, crash: &str, clean_free: bool) -> Vec<(String, String)> {
    let mut out = vec![];
    let h = w.hist.lock().unwrap();
    for p in h.panics.iter() {
        out.push(("X.panic".to_string(), format!("{crash}: {p}")));
    }
    for l in h.lookups[from..].iter() {
        let known = exp.inserted.get(&l.key).cloned().unwrap_or_default();
        match &l.res {
            LookupRes::Miss | LookupRes::Err(_) => {
                if let Some((Some(v), _)) = exp.floor.get(&l.key) {
                    if clean_free && matches!(l.res, LookupRes::Miss) && !exp.miss_ok.contains(&l.key) {
                        out.push((
                            "Z.lost-ack".into(),
                            format!("{crash}: key {} was acknowledged as flushed at v{v} but reads as a miss after recovery", l.key),
                        ));
                    }
                }
            }
            LookupRes::Hit { key, ver, .. } => {
                if *key != l.key || !known.contains(ver) {
                    out.push((
                        "Z.never-inserted".into(),
                        format!("{crash}: key {} reads (key {key}, v{ver}) which was never inserted for it", l.key),
                    ));
                    continue;
                }
                if !clean_free {
                    continue;
                }
                match exp.floor.get(&l.key) {
                    Some((Some(v), _)) if ver < v => out.push((
                        "Z.stale-ack".into(),
                        format!("{crash}: key {} was acknowledged as flushed at v{v} but reads the older v{ver} after recovery", l.key),
                    )),
                    Some((None, upto)) if ver <= upto => out.push((
                        "Z.removed-back".into(),
                        format!("{crash}: the delete of key {} was acknowledged as flushed (tombstone log on) but v{ver} is readable after recovery", l.key),
                    )),
                    _ => {}
                }
            }
            LookupRes::Garbage(g) => out.push(("Z.garbage".into(), format!("{crash}: key {} reads garbage: {g}", l.key))),
            LookupRes::Pending | LookupRes::Dropped => out.push(("X.stall".into(), format!("{crash}: read of key {} never returned", l.key))),
        }
    }
    out
}

struct Seen {
    images: HashSet<u64>,
}

fn run_job(job: &C04Job, res: &mut ShardResult, seen: &mut Seen, deadline: Instant, tier: Tier) -> bool {
    let limits = ExploreLimits {
        bound: job.bound,
        max_execs: 5_000,
        deadline: Some(deadline),
    };
    let opts = RunOpts {
        universe: vec![1, 2],
        ..Default::default()
    };
    let universe = vec![1u64, 2];
    let mut keep = true;
    let stats = explore(
        &limits,
        |ctx: &mut Ctx| {
            let out = run_program(&job.cfg, &job.prog, job.policy, &opts, ctx);
            // Extract what the enumerator needs, then let the world go.
            let log = out.world.io.log();
            let sizes = disk::capture(&out.world.dir).zeroed_like();
            let hist = std::mem::take(&mut *out.world.hist.lock().unwrap());
            let t_end = out.world.now();
            let stalled = out.world.stalled.clone();
            let steps = out.world.steps;
            drop(out);
            (log, sizes, hist, t_end, stalled, steps)
        },
        |ctx: &Ctx, (log, initial, hist, t_end, stalled, steps)| {
            res.add("executions", 1);
            res.add("steps", steps as u64);
            let mut complaints: Vec<(String, String)> = vec![];
            if let Some(s) = stalled {
                complaints.push(("X.stall".into(), s));
            }
            for p in hist.panics.iter() {
                complaints.push(("X.panic".into(), p.clone()));
            }
            // While no block has been cleaned (reclaimed), acknowledged writes must survive.
            let clean_free = !log.iter().any(|r| {
                r.kind == IoKind::Write && r.len == PAGE && r.offset == 0 && r.part as usize >= Image::first_block(job.cfg.tombstone) && r.data.as_ref().map(|d| d.iter().all(|b| *b == 0)).unwrap_or(false)
            });
            let crashes = crash_images(&initial, &log, t_end, true);
            res.add("crash_points", crashes.iter().map(|c| c.t).collect::<HashSet<_>>().len() as u64);
            for c in crashes {
                let exp = expectation(&hist, &job.cfg, c.t);
                let key = vcore::fingerprint(&(&c.image, format!("{:?}", exp.floor)));
                res.add("crash_images", 1);
                if !seen.images.insert(key) {
                    continue;
                }
                res.add("crash_images_distinct", 1);
                res.fp(key);
                let r = disk::reopen_and_read(&job.cfg, &c.image, &universe, "after-crash");
                res.add("recoveries", 1);
                if let Some(e) = &r.open_error {
                    complaints.push(("Z.reopen-failed".into(), format!("{}: {e}", c.desc)));
                } else {
                    let mut cs = judge_reads(&r.world, 0, &exp, &c.desc, clean_free);
                    // Crash/restart depth 2: continue on the recovered cache, crash again at the end.
                    if cs.is_empty() && c.t == t_end {
                        let mut r = Some(r);
                        for second in job.seconds.iter() {
                            let rr = match r.take() {
                                Some(r) => r,
                                None => disk::reopen_and_read(&job.cfg, &c.image, &universe, "after-crash"),
                            };
                            if rr.open_error.is_some() {
                                continue;
                            }
                            cs.extend(second_cycle(job, second, rr, &hist, &exp, res));
                            if !cs.is_empty() {
                                break;
                            }
                        }
                    }
                    complaints.extend(cs);
                }
                if !complaints.is_empty() {
                    break;
                }
            }
            let mut stop = false;
            for (clause, msg) in complaints {
                let signature = format!("{clause}|{}{}", if job.cfg.woi { "woi" } else { "woe" }, if job.cfg.tombstone { "+tomb" } else { "" });
                if !res.violations.iter().any(|v| v.signature == signature) {
                    res.violations.push(Violation {
                        property: "C04".into(),
                        clause: clause.clone(),
                        signature,
                        message: format!("{msg}  [workload: {}; cfg {}; {:?}]", prog_text(&job.prog), job.cfg.name(), job.policy),
                        witness: json!({"engine": "V+K", "job": job, "choices": ctx.choices()}),
                    });
                }
                stop = true;
            }
            if stop && res.violations.len() >= 4 {
                keep = false;
            }
            let _ = tier;
            !stop
        },
    );
    res.add("choice_points", stats.choice_points);
    if stats.capped {
        res.capped = true;
    }
    keep
}

/// Second crash/restart cycle: run `job.second` on the recovered cache, crash at its end (all
/// in-flight subsets), recover again; versions written after the restart must win.
fn second_cycle(job: &C04Job, second: &[HOp], mut r: disk::Reopened, first: &History, first_exp: &Expect, res: &mut ShardResult) -> Vec<(String, String)> {
    let w = &mut r.world;
    // Continue version numbering after the first cycle.
    w.hist.lock().unwrap().next_ver = first.next_ver.clone();
    let base = disk::capture(&w.dir);
    let log0 = w.io.log_len();
    for (i, op) in second.iter().enumerate() {
        w.issue(10_000 + i, op);
        w.quiesce();
    }
    let log: Vec<IoRec> = w.io.log().into_iter().skip(log0).collect();
    let t_end = w.now();
    let hist2 = std::mem::take(&mut *w.hist.lock().unwrap());
    let mut merged = History::default();
    merged.writes = first.writes.iter().cloned().chain(hist2.writes.iter().cloned()).collect();
    merged.calls = hist2.calls.clone();
    merged.leaves = hist2.leaves.clone();
    let cfg = job.cfg.clone();
    drop(r);
    let mut out = vec![];
    let universe = vec![1u64, 2];
    for c in crash_images(&base, &log, t_end, false) {
        // Expectations of the second cycle only (first-cycle acknowledgements are subsumed: anything
        // written after the restart is newer).
        let mut h2 = History::default();
        h2.writes = hist2.writes.clone();
        h2.calls = hist2.calls.clone();
        h2.leaves = hist2.leaves.clone();
        let mut exp = expectation(&h2, &cfg, c.t);
        exp.inserted = expectation(&merged, &cfg, c.t).inserted;
        // Keys the second workload does not write keep what the first cycle had acknowledged before its crash:
        // their latest write or delete is still the acknowledged one (no block is reclaimed in these runs).
        let touched: HashSet<u64> = hist2.writes.iter().map(|w| w.key).collect();
        for (k, f) in first_exp.floor.iter() {
            if !touched.contains(k) {
                exp.floor.insert(*k, *f);
            }
        }
        for k in first_exp.miss_ok.iter() {
            if !touched.contains(k) {
                exp.miss_ok.insert(*k);
            }
        }
        let rr = disk::reopen_and_read(&cfg, &c.image, &universe, "after-second-crash");
        res.add("recoveries", 1);
        res.add("second_cycle_images", 1);
        if let Some(e) = &rr.open_error {
            out.push(("Z.reopen-failed".into(), format!("second cycle, {}: {e}", c.desc)));
        } else {
            out.extend(judge_reads(&rr.world, 0, &exp, &format!("second crash/restart cycle [{}], {}", prog_text(second), c.desc), true));
        }
        if !out.is_empty() {
            break;
        }
    }
    out
}

fn jobs(tier: Tier) -> Vec<C04Job> {
    let mut v = vec![];
    let alpha: Vec<Vec<HOp>> = vec![
        vec![HOp::Ins { k: 1, sz: 100, loc: Loc::Default }],
        vec![HOp::Ins { k: 1, sz: 5000, loc: Loc::Default }],
        vec![HOp::Ins { k: 2, sz: 100, loc: Loc::Default }],
        vec![HOp::Rm { k: 1 }],
        vec![HOp::Wait],
    ];
    let len = if tier == Tier::Quick { 4 } else { 5 };
    use BasePolicy::*;
    let plan: Vec<(BasePolicy, usize)> = match tier {
        Tier::Quick => vec![(Eager, 1), (LazyIo, 0), (Alternate, 0), (ClientFirst, 0)],
        Tier::Thorough => vec![(Eager, 1), (LazyIo, 1), (Alternate, 1), (ClientFirst, 1)],
    };
    for woi in [true, false] {
        for tomb in [true, false] {
            let mut cfg = HybCfg::small(woi, tomb);
            cfg.mem_capacity = 1;
            for prog in sequences(&alpha, len) {
                let full = prog.len() == len;
                if !full && tier == Tier::Quick {
                    continue;
                }
                if !prog.iter().any(|o| matches!(o, HOp::Wait)) || !prog.iter().any(|o| matches!(o, HOp::Ins { .. })) {
                    continue;
                }
                // a workload ending in an operation other than wait adds nothing over its prefix + in-flight crash points
                for (policy, bound) in plan.iter() {
                    // Two flushers (keys 1 and 2 go to different ones, their blocks interleave in sequence order):
                    // under the schedule that also runs the second crash/restart cycle.
                    if matches!(policy, Eager) && tomb {
                        let mut cfg2 = cfg.clone();
                        cfg2.flushers = 2;
                        cfg2.buffer_pool_size = 128 * 1024;
                        v.push(C04Job {
                            cfg: cfg2,
                            prog: prog.clone(),
                            policy: *policy,
                            bound: 0,
                            seconds: vec![
                                vec![HOp::Ins { k: 1, sz: 100, loc: Loc::Default }, HOp::Fill { n: 1 }, HOp::Wait],
                                vec![HOp::Ins { k: 2, sz: 100, loc: Loc::Default }, HOp::Fill { n: 1 }, HOp::Wait],
                            ],
                        });
                    }
                    v.push(C04Job {
                        cfg: cfg.clone(),
                        prog: prog.clone(),
                        policy: *policy,
                        bound: *bound,
                        seconds: if matches!(policy, Eager) {
                            vec![
                                vec![HOp::Ins { k: 1, sz: 100, loc: Loc::Default }, HOp::Fill { n: 1 }, HOp::Wait],
                                // leaves k1 alone: what the first cycle acknowledged for it must survive a
                                // second session that only appends to the tombstone log / writes another key
                                vec![HOp::Rm { k: 2 }, HOp::Wait],
                                vec![HOp::Ins { k: 2, sz: 100, loc: Loc::Default }, HOp::Fill { n: 1 }, HOp::Wait],
                            ]
                        } else {
                            vec![]
                        },
                    });
                }
            }
        }
    }
    // Directed (both tiers): two flushers whose blocks interleave in sequence order so that the block with the
    // higher id ends with a *lower* sequence than another block — what recovery restores the counter from matters.
    for woi in [true, false] {
        let mut cfg = HybCfg::small(woi, true);
        cfg.mem_capacity = 1;
        cfg.flushers = 2;
        cfg.buffer_pool_size = 128 * 1024;
        let i = |k: u64| HOp::Ins { k, sz: 100, loc: Loc::Default };
        for prog in [
            vec![i(1), i(2), i(1), i(1), HOp::Fill { n: 1 }, HOp::Wait],
            vec![i(2), i(1), i(2), i(2), HOp::Fill { n: 1 }, HOp::Wait],
            vec![i(1), HOp::Fill { n: 1 }, i(2), HOp::Fill { n: 1 }, i(1), HOp::Fill { n: 1 }, i(1), HOp::Fill { n: 1 }, HOp::Wait],
        ] {
            v.push(C04Job {
                cfg: cfg.clone(),
                prog,
                policy: BasePolicy::Eager,
                bound: 0,
                seconds: vec![
                    vec![i(1), HOp::Fill { n: 1 }, HOp::Wait],
                    vec![i(2), HOp::Fill { n: 1 }, HOp::Wait],
                ],
            });
        }
    }
    v
}

impl Prop for C04Prop {
    fn id(&self) -> &'static str {
        "C04"
    }

    fn level(&self) -> &'static str {
        "fault_enumeration"
    }

    fn worker(&self, tier: Tier, shard: (usize, usize), deadline: Instant) -> ShardResult {
        let mut res = ShardResult::default();
        let js = jobs(tier);
        if shard.0 == 0 {
            res.add("jobs_total", js.len() as u64);
        }
        let mut seen = Seen { images: HashSet::new() };
        for (i, job) in js.iter().enumerate() {
            if i % shard.1 != shard.0 {
                continue;
            }
            if Instant::now() >= deadline {
                res.capped = true;
                res.notes.insert("wall cap reached before all workloads were enumerated".into());
                break;
            }
            if res.samples.len() < 2 {
                res.sample(json!({"engine": "V+K", "workload": prog_text(&job.prog), "cfg": job.cfg.name(), "policy": format!("{:?}", job.policy)}), 2);
            }
            res.add("workloads", 1);
            if !run_job(job, &mut res, &mut seen, deadline, tier) {
                break;
            }
        }
        cleanup_scratch();
        res
    }

    fn replay(&self, witness: &Value, verbose: bool) -> Vec<Violation> {
        let mut job: C04Job = serde_json::from_value(witness["job"].clone()).expect("witness job");
        let choices: Vec<u32> = serde_json::from_value(witness["choices"].clone()).expect("witness choices");
        if verbose {
            println!("replaying C04 workload [{}] on {} under {:?}", prog_text(&job.prog), job.cfg.name(), job.policy);
        }
        // Re-run exactly the recorded schedule (the enumerator is deterministic given the log).
        job.bound = 0;
        let mut res = ShardResult::default();
        let mut seen = Seen { images: HashSet::new() };
        let opts = RunOpts {
            universe: vec![1, 2],
            ..Default::default()
        };
        let mut ctx = Ctx::new(choices.clone());
        let out = run_program(&job.cfg, &job.prog, job.policy, &opts, &mut ctx);
        if let Some(d) = &ctx.diverged {
            eprintln!("MACHINERY: {d}");
            std::process::exit(vcore::EXIT_MACHINERY);
        }
        drop(out);
        // Same path as the worker, restricted to this schedule: explore with the choices as a forced prefix.
        let limits = ExploreLimits::new(0);
        let _ = limits;
        replay_schedule(&job, &choices, &mut res, &mut seen);
        cleanup_scratch();
        res.violations
    }

    fn rule(&self) -> String {
        "Enumerator K over Engine V: workloads = every sequence of 4 (quick) / up to 5 (thorough) calls over {insert k1 small, insert k1 2-page, insert k2, remove k1, wait} containing an insert and a wait, x both policies x tombstone log on/off, on 8 x 16 KiB blocks (nothing is reclaimed), executed under Eager/LazyIo/Alternate schedules (thorough: all schedules within 1 deviation). For every execution: every crash instant (each device-write submission or completion) x every subset of the writes in flight at that instant applied in full x page-granular tears of one in-flight write (all proper page subsets up to 4 pages). Each distinct (image, acknowledgement state) is reopened with the real builder (quiet recovery) and all keys are read. Oracle: reopen succeeds; every key reads as a miss or a version really inserted for it; a key whose latest insert/delete was acknowledged (a wait() first polled after it reached the write queue completed before the crash) reads that version or newer (delete with tombstone log: no version up to the deleted one); after a second workload (three variants: rewrite k1; delete k2 only; insert k2 only) + crash on the recovered cache, post-restart versions win and keys the second session did not write keep what was acknowledged in the first. distinct = distinct (image bytes, acknowledgement floor).".into()
    }

    fn assumptions(&self) -> Vec<String> {
        vec![
            "a device write is atomic at page granularity; the 4 KiB blob index page is never torn".into(),
            "writes in flight may reach the device in any subset (no ordering between concurrent writes)".into(),
            "shedding limits never trigger; entries advised in-memory-only are not part of the claim".into(),
        ]
    }

    fn bounds(&self, tier: Tier) -> Value {
        json!({"workloads": jobs(tier).len(), "max_calls": if tier == Tier::Quick { 4 } else { 5 }, "max_in_flight_subset": 4, "crash_restart_depth": 2})
    }

    fn vacuity(&self, _tier: Tier, r: &ShardResult) -> Vec<String> {
        let mut v = vec![];
        if r.get("recoveries") == 0 {
            v.push("no image was ever recovered".into());
        }
        if r.fingerprints.len() < 2 {
            v.push("fewer than two distinct crash images".into());
        }
        v
    }

    fn wall_cap(&self, tier: Tier) -> Duration {
        match tier {
            Tier::Quick => Duration::from_secs(150),
            Tier::Thorough => Duration::from_secs(1500),
        }
    }
}

fn replay_schedule(job: &C04Job, choices: &[u32], res: &mut ShardResult, seen: &mut Seen) {
    // Run the worker path with a chooser that is pinned to the recorded schedule.
    let opts = RunOpts {
        universe: vec![1, 2],
        ..Default::default()
    };
    let mut ctx = Ctx::new(choices.to_vec());
    let out = run_program(&job.cfg, &job.prog, job.policy, &opts, &mut ctx);
    let log = out.world.io.log();
    let initial = disk::capture(&out.world.dir).zeroed_like();
    let hist = std::mem::take(&mut *out.world.hist.lock().unwrap());
    let t_end = out.world.now();
    drop(out);
    let universe = vec![1u64, 2];
    let clean_free = true;
    'outer: for c in crash_images(&initial, &log, t_end, true) {
        let exp = expectation(&hist, &job.cfg, c.t);
        let key = vcore::fingerprint(&(&c.image, format!("{:?}", exp.floor)));
        if !seen.images.insert(key) {
            continue;
        }
        let r = disk::reopen_and_read(&job.cfg, &c.image, &universe, "after-crash");
        let mut cs = vec![];
        if let Some(e) = &r.open_error {
            cs.push(("Z.reopen-failed".to_string(), format!("{}: {e}", c.desc)));
        } else {
            cs = judge_reads(&r.world, 0, &exp, &c.desc, clean_free);
            if cs.is_empty() && c.t == t_end {
                let mut r = Some(r);
                for second in job.seconds.iter() {
                    let rr = match r.take() {
                        Some(r) => r,
                        None => disk::reopen_and_read(&job.cfg, &c.image, &universe, "after-crash"),
                    };
                    if rr.open_error.is_some() {
                        continue;
                    }
                    cs.extend(second_cycle(job, second, rr, &hist, &exp, res));
                    if !cs.is_empty() {
                        break;
                    }
                }
            }
        }
        for (clause, msg) in cs {
            let signature = format!("{clause}|{}{}", if job.cfg.woi { "woi" } else { "woe" }, if job.cfg.tombstone { "+tomb" } else { "" });
            if !res.violations.iter().any(|v| v.signature == signature) {
                res.violations.push(Violation {
                    property: "C04".into(),
                    clause,
                    signature,
                    message: msg,
                    witness: json!({"engine": "V+K", "job": job, "choices": choices}),
                });
            }
            break 'outer;
        }
    }
}
