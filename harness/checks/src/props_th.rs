//! Engine TH — thread interleavings of the real **hybrid** cache (thread-level parts of C01 / C16 / C17).
//!
//! Engine V runs the hybrid cache on one thread and explores task-poll orders: a client call's
//! synchronous part (memory insert + disk enqueue, memory remove + disk delete, the memory lookup and
//! in-flight registration of a `get`) is atomic there. On a multi-threaded runtime it is not. Here two
//! or three controlled OS threads call the cache concurrently while a further controlled thread plays
//! the runtime worker (it polls ready tasks and completes pending device IO, one step at a time);
//! every `parking_lot` lock operation of foyer-memory / foyer-storage (shards, in-flight table, write
//! queue index, disk index) and every runtime step is a scheduling point, and all interleavings up to a
//! preemption bound are executed (the scheduler and explorer are Engine T's).

use std::{
    sync::{
        atomic::{AtomicBool, AtomicU64, Ordering},
        Arc, Mutex,
    },
    task::{Context, Poll, Wake, Waker},
    time::{Duration, Instant},
};

use parking_lot::sched;
use serde::{Deserialize, Serialize};
use serde_json::{json, Value};
use tokio::sim;
use vcore::{
    evidence::{ShardResult, Violation},
    Ctx,
};

use crate::{
    framework::{Prop, Tier},
    hyb::{mkval, HOp, HVal, History, HybCfg, Loc, LookupEv, LookupRes, WKind, World, WriteEv, HC},
    oracle_r,
};

#[derive(Debug, Clone, Copy, PartialEq, Eq, Serialize, Deserialize)]
pub enum HTOp {
    Ins { k: u64, sz: usize },
    Rm { k: u64 },
    Get { k: u64 },
    /// get_or_fetch with an origin that resolves at once with a fresh version.
    Gof { k: u64, sz: usize },
    /// `n` fresh in-memory-only fillers: evicts everything else from memory.
    Fill { n: usize },
    Contains { k: u64 },
    /// close() from a client thread (the final restart closes again: close is idempotent).
    Close,
}

#[derive(Debug, Clone, Serialize, Deserialize)]
pub struct HTJob {
    pub cfg: HybCfg,
    /// Executed sequentially (FIFO, quiescing after every call) before the threads start.
    pub prologue: Vec<HOp>,
    pub threads: Vec<Vec<HTOp>>,
    pub bound: usize,
    /// Number of runtime-worker threads (tasks run in parallel with each other when > 1).
    #[serde(default)]
    pub rt_workers: usize,
    /// Cost model of the exploration: false = preemption bounding (switches at blocking points are free, as in
    /// Engine T); true = deviation (delay) bounding: at every scheduling point the default is "stay, or else the
    /// lowest enabled thread" and any other choice costs one deviation, also at blocking points — needed with
    /// several runtime workers, which park and are woken all the time.
    #[serde(default)]
    pub flat_cost: bool,
}

struct ThreadWaker {
    tid: usize,
}

impl Wake for ThreadWaker {
    fn wake(self: Arc<Self>) {
        sched::unpark(self.tid);
    }
    fn wake_by_ref(self: &Arc<Self>) {
        sched::unpark(self.tid);
    }
}

/// Drive a client future from a controlled thread: poll; while pending, park until the waker fires.
/// Returns the output and whether the future was ready at its first poll (a synchronous answer: a memory hit).
fn block_on_parked<F: std::future::Future>(fut: F) -> (F::Output, bool) {
    let tid = sched::current_tid().expect("controlled thread");
    let waker = Waker::from(Arc::new(ThreadWaker { tid }));
    let mut cx = Context::from_waker(&waker);
    let mut fut = Box::pin(fut);
    let mut polls = 0;
    loop {
        polls += 1;
        if let Poll::Ready(r) = fut.as_mut().poll(&mut cx) {
            return (r, polls == 1);
        }
        sched::park();
    }
}

struct Env {
    cache: HC,
    hist: Arc<Mutex<History>>,
    clock: Arc<AtomicU64>,
    epoch: u32,
    filler_next: AtomicU64,
}

impl Env {
    fn tick(&self) -> u64 {
        let t = self.clock.fetch_add(1, Ordering::SeqCst) + 1;
        crate::hyb::NOW.fetch_max(t, Ordering::SeqCst);
        t
    }
}

fn run_ops(env: &Arc<Env>, thread: usize, ops: &[HTOp]) {
    for (i, op) in ops.iter().enumerate() {
        let idx = thread * 100 + i;
        let t = env.tick();
        match *op {
            HTOp::Ins { k, sz } => {
                let ver = env.hist.lock().unwrap().new_ver(k);
                let e = env.cache.insert_with_properties(k, HVal(mkval(k, ver, sz, false)), World::props(Loc::Default));
                drop(e);
                let r = env.tick();
                env.hist.lock().unwrap().writes.push(WriteEv {
                    in_memory_after: None,
                    op: idx,
                    key: k,
                    ver,
                    kind: WKind::Insert {
                        loc: Loc::Default,
                        sz,
                        storage_writer: false,
                    },
                    invoke: t,
                    resp: Some(r),
                    epoch: env.epoch,
                });
            }
            HTOp::Rm { k } => {
                env.cache.remove(&k);
                let r = env.tick();
                env.hist.lock().unwrap().writes.push(WriteEv {
                    in_memory_after: None,
                    op: idx,
                    key: k,
                    ver: 0,
                    kind: WKind::Remove,
                    invoke: t,
                    resp: Some(r),
                    epoch: env.epoch,
                });
            }
            HTOp::Fill { n } => {
                for _ in 0..n {
                    let k = env.filler_next.fetch_add(1, Ordering::SeqCst);
                    let e = env.cache.insert_with_properties(k, HVal(mkval(k, 1, 24, false)), World::props(Loc::InMem));
                    drop(e);
                }
            }
            HTOp::Close => {
                let (r, _) = block_on_parked(env.cache.close());
                let done = env.tick();
                let mut h = env.hist.lock().unwrap();
                h.calls.push((idx, "close", t, Some(done)));
                if let Err(e) = r {
                    h.panics.push(format!("close() failed: {e}"));
                }
            }
            HTOp::Contains { k } => {
                let c = env.cache.contains(&k);
                let r = env.tick();
                env.hist.lock().unwrap().lookups.push(LookupEv {
                    op: idx,
                    key: k,
                    kind: "contains",
                    invoke: t,
                    resp: Some(r),
                    answered: Some(r),
                    res: if c { LookupRes::Hit { key: k, ver: u64::MAX, source: 9 } } else { LookupRes::Miss },
                    epoch: env.epoch,
                });
            }
            HTOp::Get { k } => {
                let fut = env.cache.get(&k);
                // a memory hit is answered by the call itself; everything else went through the in-flight table
                let sync = !fut.need_await();
                let (out, _) = block_on_parked(fut);
                let res = World::lookup_result(out, k);
                let r = env.tick();
                env.hist.lock().unwrap().lookups.push(LookupEv {
                    op: idx,
                    key: k,
                    kind: "get",
                    invoke: t,
                    resp: Some(r),
                    // answered at invoke time = served synchronously by the memory tier (no in-flight lookup)
                    answered: Some(if sync { t } else { r }),
                    res,
                    epoch: env.epoch,
                });
            }
            HTOp::Gof { k, sz } => {
                let hist = env.hist.clone();
                let clock = env.clock.clone();
                let epoch = env.epoch;
                let wi: Arc<Mutex<Option<usize>>> = Arc::new(Mutex::new(None));
                let wi2 = wi.clone();
                let origin = async move {
                    let now = clock.fetch_add(1, Ordering::SeqCst) + 1;
                    crate::hyb::NOW.fetch_max(now, Ordering::SeqCst);
                    let mut h = hist.lock().unwrap();
                    let ver = h.new_ver(k);
                    h.writes.push(WriteEv {
                        in_memory_after: None,
                        op: idx,
                        key: k,
                        ver,
                        kind: WKind::FetchInsert { sz },
                        invoke: now,
                        resp: None,
                        epoch,
                    });
                    *wi2.lock().unwrap() = Some(h.writes.len() - 1);
                    Ok::<HVal, anyhow::Error>(HVal(mkval(k, ver, sz, false)))
                };
                let fut = env.cache.get_or_fetch(&k, || origin);
                let sync = !fut.need_await();
                let (out, _) = block_on_parked(fut);
                let res = World::lookup_result(out.map(Some), k);
                let r = env.tick();
                let mut h = env.hist.lock().unwrap();
                if let Some(wi) = *wi.lock().unwrap() {
                    h.writes[wi].resp = Some(r);
                }
                h.lookups.push(LookupEv {
                    op: idx,
                    key: k,
                    kind: "gof",
                    invoke: t,
                    resp: Some(r),
                    answered: Some(if sync { t } else { r }),
                    res,
                    epoch: env.epoch,
                });
            }
        }
    }
}

pub struct ExecOut {
    pub complaints: Vec<(String, String)>,
    pub fp: u64,
    pub steps: usize,
    pub switches: usize,
    pub rt_steps: u64,
    pub disk_hits: u64,
    pub mem_hits: u64,
    pub io_writes: u64,
    pub trace: Vec<String>,
}

fn keys_of(job: &HTJob) -> Vec<u64> {
    let mut keys: Vec<u64> = job
        .threads
        .iter()
        .flatten()
        .filter_map(|o| match o {
            HTOp::Ins { k, .. } | HTOp::Rm { k } | HTOp::Get { k } | HTOp::Gof { k, .. } | HTOp::Contains { k } => Some(*k),
            HTOp::Fill { .. } | HTOp::Close => None,
        })
        .chain(job.prologue.iter().filter_map(|o| match o {
            HOp::Ins { k, .. } | HOp::Rm { k } | HOp::Get { k } | HOp::Gof { k, .. } => Some(*k),
            _ => None,
        }))
        .collect();
    keys.sort();
    keys.dedup();
    keys
}

pub fn execute(job: &HTJob, ctx: Arc<Mutex<Ctx>>, on_deadlock: sched::DeadlockHandler) -> ExecOut {
    sim::reset();
    let _ = crate::hyb::lock_probe_take();
    let _ = crate::hyb::admissions_take();
    crate::hyb::NOW.store(0, Ordering::SeqCst);
    let ctx2 = ctx.clone();
    let flat = job.flat_cost;
    sched::begin(sched::Config {
        chooser: Box::new(move |p: &sched::Point| {
            let mut c = ctx2.lock().unwrap();
            let i = c.choose(p.enabled.len(), !p.current_enabled && !flat);
            c.label(|| format!("{:?}: run t{} of {:?}", p.why, p.enabled[i], p.enabled));
            i
        }),
        on_deadlock,
        max_steps: 200_000,
        point_after_unlock: true,
    });
    let rt_steps = Arc::new(AtomicU64::new(0));
    let mut world = World::new(job.cfg.clone());
    let res = std::panic::catch_unwind(std::panic::AssertUnwindSafe(|| {
        let mut complaints: Vec<(String, String)> = vec![];
        if let Err(e) = world.open() {
            complaints.push(("X.panic".into(), format!("open failed: {e}")));
            return complaints;
        }
        for (i, op) in job.prologue.iter().enumerate() {
            world.issue(100_000 + i, op);
            world.quiesce();
        }
        let cache = world.cache.clone().expect("cache");
        let env = Arc::new(Env {
            cache,
            hist: world.hist.clone(),
            clock: world.clock.clone(),
            epoch: world.epoch,
            filler_next: AtomicU64::new(5000),
        });
        // The runtime worker: one ready task poll or one device IO completion per step.
        let stop = Arc::new(AtomicBool::new(false));
        let io = world.io.clone();
        io.set_auto(false);
        let workers = job.rt_workers.max(1);
        let rt_tids: Arc<Mutex<Vec<usize>>> = Arc::new(Mutex::new(vec![]));
        let mut rts = vec![];
        for wi in 0..workers {
            let stop = stop.clone();
            let io = io.clone();
            let rt_steps = rt_steps.clone();
            let clock = world.clock.clone();
            let rt_tids = rt_tids.clone();
            rts.push(sched::spawn(&format!("rt{wi}"), move || {
                let me = sched::current_tid().expect("rt tid");
                rt_tids.lock().unwrap().push(me);
                let tids = rt_tids.clone();
                let hook: Arc<dyn Fn() + Send + Sync> = Arc::new(move || {
                    for t in tids.lock().unwrap().iter() {
                        sched::unpark(*t);
                    }
                });
                sim::set_wake_hook(Some(hook.clone()));
                io.set_submit_hook(Some(hook));
                loop {
                    if let Some(t) = sim::ready().first().copied() {
                        let now = clock.fetch_add(1, Ordering::SeqCst) + 1;
                        crate::hyb::NOW.fetch_max(now, Ordering::SeqCst);
                        io.set_clock(now);
                        sim::set_time(now);
                        sim::poll(t);
                    } else if let Some(i) = io.pending().first().copied() {
                        let now = clock.fetch_add(1, Ordering::SeqCst) + 1;
                        crate::hyb::NOW.fetch_max(now, Ordering::SeqCst);
                        io.set_clock(now);
                        io.complete(i);
                    } else if stop.load(Ordering::SeqCst) {
                        break;
                    } else {
                        sched::park();
                        continue;
                    }
                    if rt_steps.fetch_add(1, Ordering::SeqCst) > 50_000 {
                        break;
                    }
                    sched::step_point("rt-step");
                }
            }));
        }
        let mut handles = vec![];
        for (ti, ops) in job.threads.iter().enumerate() {
            let env = env.clone();
            let ops = ops.clone();
            handles.push(sched::spawn(&format!("c{}", ti + 1), move || run_ops(&env, ti + 1, &ops)));
        }
        for h in handles {
            if let Err(p) = sched::join(h) {
                complaints.push(("X.panic".into(), format!("a client thread panicked: {}", sim::panic_message(&p))));
            }
        }
        stop.store(true, Ordering::SeqCst);
        for rt in rts {
            sched::unpark(rt.tid());
            if let Err(p) = sched::join(rt) {
                complaints.push(("X.panic".into(), format!("a runtime thread panicked: {}", sim::panic_message(&p))));
            }
        }
        sim::set_wake_hook(None);
        io.set_submit_hook(None);
        drop(env);
        // Everything below runs on the main thread alone (no choices): quiesce, then read the key from
        // memory, from disk (after evicting memory) and after a graceful restart.
        world.quiesce();
        let keys = keys_of(job);
        world.read_all(&keys, "final");
        world.issue(200_000, &HOp::Fill { n: job.cfg.mem_capacity.max(1) });
        world.quiesce();
        world.read_all(&keys, "final-evicted");
        world.graceful_restart();
        world.read_all(&keys, "after-restart");
        complaints
    }));
    let summary = sched::end();
    let mut complaints = match res {
        Ok(c) => c,
        Err(p) => vec![("X.panic".to_string(), format!("the harness thread panicked: {}", sim::panic_message(&p)))],
    };
    if let Some(a) = summary.aborted {
        complaints.push(("K.deadlock".into(), a));
    }
    if let Some(s) = world.stalled.clone() {
        complaints.push(("X.stall".into(), s));
    }
    let (fp, disk_hits, mem_hits, trace) = {
        let mut h = world.hist.lock().unwrap();
        h.admissions = crate::hyb::admissions_take();
        let h = h;
        for p in h.panics.iter() {
            complaints.push(("X.panic".into(), p.clone()));
        }
        for l in h.lock_held.iter() {
            complaints.push((format!("K.lock-held:{l}"), format!("user callback {l} ran while the calling thread held a cache lock")));
        }
        // C15 at thread granularity: what was inserted (call returned) before a client thread called close() and
        // was not written again is on disk after the restart (flush-on-close / write-on-insertion; the resident
        // set is tiny). Inserts that overlap close() may or may not make it.
        if let Some(close_at) = h.calls.iter().filter(|c| c.1 == "close" && c.0 != usize::MAX).map(|c| c.2).min() {
            let mut latest: std::collections::BTreeMap<u64, &WriteEv> = Default::default();
            for w in h.writes.iter().filter(|w| matches!(w.kind, WKind::Insert { .. })) {
                latest.insert(w.key, w);
            }
            for (k, w) in latest {
                let only = h.writes.iter().filter(|x| x.key == k).count() == 1;
                if !(only && w.resp.map(|r| r < close_at).unwrap_or(false)) || job.cfg.unwritable(match w.kind {
                    WKind::Insert { sz, .. } => sz,
                    _ => 0,
                }) {
                    continue;
                }
                // Attribution: under LRU an entry that a lookup on another thread holds while close() flushes memory is
                // pinned, the flush (an eviction of everything evictable) passes it over, and it is never written.
                let close_done = h.calls.iter().filter(|c| c.1 == "close" && c.0 != usize::MAX).filter_map(|c| c.3).max().unwrap_or(u64::MAX);
                let held = job.cfg.mem_algo.is_lru()
                    && h.lookups.iter().any(|l0| {
                        l0.key == k && l0.invoke < close_done && l0.resp.map(|r| r > close_at).unwrap_or(true) && matches!(&l0.res, LookupRes::Hit { ver, .. } if *ver == w.ver)
                    });
                for l in h.lookups.iter().filter(|l| l.key == k && l.kind == "after-restart") {
                    if !matches!(&l.res, LookupRes::Hit { ver, .. } if *ver == w.ver) {
                        complaints.push((
                            if held { "D.lost-on-close-entry-held".into() } else { "D.lost-on-close".into() },
                            format!("k{k} v{} was inserted (t{}..{:?}) before a client thread called close() at t{close_at}, but after reopen the lookup gives {:?}", w.ver, w.invoke, w.resp, l.res),
                        ));
                    }
                }
            }
        }
        // Calls made after (or overlapping) a client thread's close() are "ignored rather than corrupting state":
        // an insert or remove that had not returned when close() was called may or may not take effect, so for the
        // register oracle it never completes (it cannot supersede anything, but its value may be returned).
        let client_close = h.calls.iter().filter(|c| c.1 == "close" && c.0 != usize::MAX).map(|c| c.2).min();
        let mut hr = History::default();
        hr.writes = h.writes.clone();
        hr.lookups = h.lookups.clone();
        hr.leaves = h.leaves.clone();
        hr.admissions = h.admissions.clone();
        if let Some(ca) = client_close {
            for w in hr.writes.iter_mut() {
                if w.resp.map(|r| r >= ca).unwrap_or(true) {
                    w.resp = None;
                }
            }
        }
        let rs = oracle_r::check(&hr, &job.cfg);
        // The divergence rule is the weaker statement: it speaks only where the register oracle is silent.
        if rs.is_empty() && client_close.is_none() {
            complaints.extend(divergence(&h));
        }
        for (c, m) in rs {
            complaints.push((attribute(c, &h, &m), m));
        }
        let mut fpv: Vec<u64> = vec![];
        let mut disk_hits = 0;
        let mut mem_hits = 0;
        let mut trace = vec![];
        let mut ls: Vec<&LookupEv> = h.lookups.iter().collect();
        ls.sort_by_key(|l| (l.op, l.invoke));
        for l in ls {
            fpv.push(l.op as u64);
            match &l.res {
                LookupRes::Hit { ver, source, .. } => {
                    fpv.push(*ver * 10 + *source as u64);
                    if *source == 2 {
                        disk_hits += 1;
                    }
                    if *source == 1 {
                        mem_hits += 1;
                    }
                }
                LookupRes::Miss => fpv.push(1),
                _ => fpv.push(2),
            }
            trace.push(format!("lookup op{} {}(k{}) t{}..{:?} -> {:?}", l.op, l.kind, l.key, l.invoke, l.resp, l.res));
        }
        for w in h.writes.iter() {
            trace.push(format!("write op{} k{} v{} {:?} t{}..{:?}", w.op, w.key, w.ver, w.kind, w.invoke, w.resp));
        }
        (vcore::fingerprint(&fpv), disk_hits, mem_hits, trace)
    };
    let io_writes = world.io.log().iter().filter(|r| r.kind == crate::simio::IoKind::Write).count() as u64;
    drop(world);
    ExecOut {
        complaints,
        fp,
        steps: summary.steps,
        switches: summary.switches,
        rt_steps: rt_steps.load(Ordering::SeqCst),
        disk_hits,
        mem_hits,
        io_writes,
        trace,
    }
}

/// Thread-level attribution of a register complaint: was the superseding call concurrent with the call
/// that produced the returned version (two overlapping synchronous calls on different threads)?
fn attribute(clause: &'static str, h: &History, msg: &str) -> String {
    let _ = (h, msg);
    clause.to_string()
}

/// After every thread has finished and the runtime is quiescent the key has one current value: the three
/// final lookups (memory, disk after evicting memory, after a graceful restart) may miss, but two of
/// them returning *different* versions means that one tier serves a value that is not the most recent
/// completed insert — whichever of the (possibly overlapping) inserts is taken to be the last.
fn divergence(h: &History) -> Vec<(String, String)> {
    let mut out = vec![];
    let finals: Vec<&LookupEv> = h.lookups.iter().filter(|l| matches!(l.kind, "final" | "final-evicted" | "after-restart")).collect();
    let mut keys: Vec<u64> = finals.iter().map(|l| l.key).collect();
    keys.sort();
    keys.dedup();
    for k in keys {
        let hits: Vec<(&'static str, u64, u8)> = finals
            .iter()
            .filter(|l| l.key == k)
            .filter_map(|l| match &l.res {
                LookupRes::Hit { key, ver, source } if *key == k => Some((l.kind, *ver, *source)),
                _ => None,
            })
            .collect();
        if let Some(first) = hits.first() {
            if let Some(other) = hits.iter().find(|x| x.1 != first.1) {
                let overlapping = {
                    let ws: Vec<&WriteEv> = h.writes.iter().filter(|w| w.key == k && (w.ver == first.1 || w.ver == other.1) && w.ver != 0).collect();
                    ws.len() == 2 && ws[0].invoke < ws[1].resp.unwrap_or(u64::MAX) && ws[1].invoke < ws[0].resp.unwrap_or(u64::MAX)
                };
                out.push((
                    if overlapping { "R.tiers-diverge-concurrent-inserts".to_string() } else { "R.tiers-diverge".to_string() },
                    format!(
                        "after all threads finished, with no call in progress, lookups of k{k} returned v{} ({}, tier {}) and then v{} ({}, tier {}): the memory and disk tiers hold different versions as the current one",
                        first.1, first.0, first.2, other.1, other.0, other.2
                    ),
                ));
            }
        }
    }
    out
}

pub struct THProp {
    pub id: &'static str,
    pub owned: Vec<&'static str>,
    pub jobs: fn(Tier) -> Vec<HTJob>,
}

fn sig(clause: &str, job: &HTJob) -> String {
    format!("{clause}|TH|{}", job.cfg.name())
}

fn thread_text(job: &HTJob) -> String {
    format!("prologue {:?}; threads {:?}", crate::hyb::prog_text(&job.prologue), job.threads)
}

/// `split = (i, n)`: this process explores the root execution's alternatives number ≡ i (mod n) only (the
/// root itself is counted by process 0); the executions are deterministic, so every process derives the same
/// list of alternatives and the subtrees partition the schedule space of the job.
fn explore_job(prop: &THProp, job: &HTJob, res: &mut ShardResult, deadline: Instant, max_execs: u64, split: (usize, usize)) -> bool {
    let mut keep = true;
    let mut stack: Vec<Vec<u32>> = vec![vec![]];
    let mut execs = 0u64;
    let mut at_root = true;
    while let Some(prefix) = stack.pop() {
        if execs >= max_execs || Instant::now() >= deadline {
            res.capped = true;
            res.notes.insert("a hybrid thread program hit its execution or wall cap".into());
            break;
        }
        let plen = prefix.len();
        let ctx = Arc::new(Mutex::new(Ctx::new(prefix)));
        let jv = Violation {
            property: prop.id.into(),
            clause: "K.deadlock".into(),
            signature: sig("K.deadlock", job),
            message: String::new(),
            witness: json!({}),
        };
        let job_json = serde_json::to_value(job).unwrap();
        let ctx3 = ctx.clone();
        let handler: sched::DeadlockHandler = Box::new(move |desc: &str| {
            let mut v = jv.clone();
            v.message = format!("threads of the hybrid cache harness deadlocked (or a caller was never answered): {desc}");
            v.witness = json!({"engine": "TH", "job": job_json, "choices": ctx3.lock().map(|c| c.choices()).unwrap_or_default()});
            vcore::par::journal(&v);
            std::process::exit(3);
        });
        let out = execute(job, ctx.clone(), handler);
        let ctx = Arc::try_unwrap(ctx).map(|m| m.into_inner().unwrap()).unwrap_or_else(|a| {
            let g = a.lock().unwrap();
            let mut c = Ctx::new(g.choices());
            c.points = g.points.clone();
            c
        });
        if let Some(d) = &ctx.diverged {
            eprintln!("MACHINERY: {d}");
            std::process::exit(vcore::EXIT_MACHINERY);
        }
        execs += 1;
        let counted = !(at_root && split.0 != 0);
        if counted {
            res.add("executions", 1);
            res.add("th_executions", 1);
            res.add("steps", out.steps as u64);
            res.add("context_switches", out.switches as u64);
            res.add("runtime_steps", out.rt_steps);
            res.add("choice_points", ctx.points.len() as u64);
            res.add("disk_hits", out.disk_hits);
            res.add("memory_hits", out.mem_hits);
            res.add("io_writes", out.io_writes);
            res.max("max_enabled", ctx.points.iter().map(|p| p.n).max().unwrap_or(0) as u64);
            res.fp(out.fp);
        }
        let mut cost = 0usize;
        let mut costs = vec![];
        for p in ctx.points.iter() {
            costs.push(cost);
            if p.chosen != 0 && !p.free {
                cost += 1;
            }
        }
        res.max("max_preemptions", cost as u64);
        for i in (plen..ctx.points.len()).rev() {
            let p = ctx.points[i];
            if p.n <= 1 {
                continue;
            }
            let extra = if p.free { 0 } else { 1 };
            if costs[i] + extra > job.bound {
                continue;
            }
            for alt in (1..p.n).rev() {
                let mut np: Vec<u32> = ctx.points[..i].iter().map(|q| q.chosen).collect();
                np.push(alt);
                stack.push(np);
            }
        }
        if at_root {
            at_root = false;
            if split.1 > 1 {
                let mut idx = 0usize;
                stack.retain(|_| {
                    let mine = idx % split.1 == split.0;
                    idx += 1;
                    mine
                });
            }
            if !counted {
                // the root's verdict belongs to process 0
                continue;
            }
        }
        let mut stop = false;
        for (clause, msg) in out.complaints {
            if !prop.owned.iter().any(|o| clause.starts_with(o)) {
                res.add("foreign_clause_complaints", 1);
                continue;
            }
            if std::env::var_os("VERIF_TH_SHOW").is_some() {
                eprintln!("THSHOW {clause} :: {} :: {} :: {}", thread_text(job), job.cfg.name(), msg.chars().take(160).collect::<String>());
            }
            let signature = sig(&clause, job);
            if !res.violations.iter().any(|v| v.signature == signature) {
                res.violations.push(Violation {
                    property: prop.id.into(),
                    clause: clause.clone(),
                    signature,
                    message: format!("{msg}  [{}; {}; {} preemptions]", thread_text(job), job.cfg.name(), cost),
                    witness: json!({"engine": "TH", "job": job, "choices": ctx.choices()}),
                });
            }
            stop = true;
        }
        if stop {
            // One witness per (clause, configuration) is enough; the remaining schedules of this program are
            // still explored unless the shard already carries many different violations.
            if res.violations.len() >= 12 && std::env::var_os("VERIF_TH_SHOW").is_none() {
                keep = false;
                break;
            }
        }
    }
    keep
}

const K1: u64 = 1;
const SMALL: usize = 40;

fn cfgs(tier: Tier) -> Vec<HybCfg> {
    let mut v = vec![];
    for woi in [true, false] {
        let mut c = HybCfg::small(woi, true);
        c.mem_capacity = 2;
        v.push(c);
    }
    if tier == Tier::Thorough {
        let c = HybCfg::small(true, false);
        v.push(c);
        let mut c = HybCfg::small(false, true);
        c.mem_algo = crate::memmodel::Algo::Lru { ratio: 0.5 };
        v.push(c);
    }
    v
}

pub fn jobs_c01(tier: Tier) -> Vec<HTJob> {
    let ins = HTOp::Ins { k: K1, sz: SMALL };
    let rm = HTOp::Rm { k: K1 };
    let get = HTOp::Get { k: K1 };
    let gof = HTOp::Gof { k: K1, sz: SMALL };
    let fill = HTOp::Fill { n: 2 };
    let empty: Vec<HOp> = vec![];
    // k1 lives on disk only
    let on_disk = vec![HOp::Ins { k: K1, sz: SMALL, loc: Loc::Default }, HOp::Fill { n: 2 }, HOp::Wait];
    // k1 in memory (and on disk under write-on-insertion)
    let in_mem = vec![HOp::Ins { k: K1, sz: SMALL, loc: Loc::Default }, HOp::Wait];
    let mut v = vec![];
    let mut push = |cfg: &HybCfg, pro: &Vec<HOp>, th: Vec<Vec<HTOp>>, bound: usize| {
        v.push(HTJob {
            cfg: cfg.clone(),
            prologue: pro.clone(),
            threads: th,
            bound,
            rt_workers: 1,
            flat_cost: false,
        })
    };
    if tier == Tier::Quick {
        // A subset that is exhaustive at one preemption within the quick budget: every pair of plain calls on
        // the contended key and the two-call programs in which memory eviction separates the two tiers.
        let cs = cfgs(tier);
        let (woi, woe) = (&cs[0], &cs[1]);
        for pro in [&on_disk, &in_mem] {
            push(woi, pro, vec![vec![ins], vec![ins]], 1);
            push(woi, pro, vec![vec![ins], vec![rm]], 1);
            push(woi, pro, vec![vec![rm], vec![get]], 1);
            push(woi, pro, vec![vec![ins], vec![get]], 1);
            push(woi, pro, vec![vec![fill, get], vec![ins]], 1);
        }
        push(woi, &empty, vec![vec![ins], vec![ins]], 1);
        push(woi, &in_mem, vec![vec![ins, fill], vec![rm]], 1);
        push(woi, &on_disk, vec![vec![get, get], vec![rm]], 1);
        push(woe, &in_mem, vec![vec![ins, fill], vec![rm]], 1);
        push(woe, &in_mem, vec![vec![ins, fill], vec![ins]], 1);
        push(woe, &on_disk, vec![vec![rm], vec![get]], 1);
        push(woe, &on_disk, vec![vec![get, get], vec![rm]], 1);
        push(woe, &on_disk, vec![vec![fill, get], vec![ins]], 1);
        push(woe, &on_disk, vec![vec![ins, fill], vec![get]], 1);
        return v;
    }
    let mut programs: Vec<Vec<Vec<HTOp>>> = vec![];
    let singles = [ins, rm, get, gof];
    for (i, a) in singles.iter().enumerate() {
        for b in singles.iter().skip(i) {
            if matches!((a, b), (HTOp::Get { .. }, HTOp::Get { .. })) {
                continue;
            }
            programs.push(vec![vec![*a], vec![*b]]);
        }
    }
    // two operations against one
    programs.push(vec![vec![ins, fill], vec![ins]]);
    programs.push(vec![vec![ins, fill], vec![rm]]);
    programs.push(vec![vec![get, get], vec![rm]]);
    programs.push(vec![vec![get, get], vec![ins]]);
    programs.push(vec![vec![fill, get], vec![ins]]);
    programs.push(vec![vec![fill, get], vec![rm]]);
    programs.push(vec![vec![ins, fill], vec![get]]);
    programs.push(vec![vec![ins, get], vec![rm, get]]);
    programs.push(vec![vec![ins, rm], vec![ins]]);
    programs.push(vec![vec![gof, fill], vec![ins]]);
    programs.push(vec![vec![gof, fill], vec![rm]]);
    programs.push(vec![vec![ins], vec![rm], vec![get]]);
    programs.push(vec![vec![ins], vec![ins], vec![fill, get]]);
    // bound 1 everywhere first (complete), then bound 2 (as far as the wall cap allows)
    for bound in [1, 2] {
        for cfg in cfgs(tier) {
            for pro in [&empty, &on_disk, &in_mem] {
                for th in programs.iter() {
                    push(&cfg, pro, th.clone(), bound);
                }
            }
        }
    }
    v
}

/// C16: lock-order / hand-off deadlocks between client threads and the runtime on two keys.
pub fn jobs_c16(tier: Tier) -> Vec<HTJob> {
    const K2: u64 = 2;
    let ins = |k| HTOp::Ins { k, sz: SMALL };
    let rm = |k| HTOp::Rm { k };
    let get = |k| HTOp::Get { k };
    let gof = |k| HTOp::Gof { k, sz: SMALL };
    let fill = HTOp::Fill { n: 2 };
    let both_on_disk = vec![
        HOp::Ins { k: K1, sz: SMALL, loc: Loc::Default },
        HOp::Ins { k: K2, sz: SMALL, loc: Loc::Default },
        HOp::Fill { n: 2 },
        HOp::Wait,
    ];
    let bound = if tier == Tier::Thorough { 2 } else { 1 };
    let mut v = vec![];
    for cfg in cfgs(tier) {
        let mut progs = vec![
            vec![vec![ins(K1), get(K2)], vec![ins(K2), get(K1)]],
            vec![vec![rm(K1), ins(K2)], vec![rm(K2), ins(K1)]],
            vec![vec![get(K1), fill], vec![get(K2), rm(K1)]],
        ];
        if tier == Tier::Thorough {
            progs.push(vec![vec![gof(K1)], vec![ins(K1)], vec![rm(K1)]]);
            progs.push(vec![vec![gof(K1), gof(K2)], vec![gof(K2), gof(K1)]]);
            progs.push(vec![vec![get(K1)], vec![get(K1)], vec![fill, rm(K1)]]);
        }
        for th in progs {
            v.push(HTJob {
                cfg: cfg.clone(),
                prologue: both_on_disk.clone(),
                threads: th,
                bound,
                rt_workers: 1,
                flat_cost: false,
            });
        }
    }
    v
}

pub fn c16_th() -> THProp {
    THProp {
        id: "C16",
        owned: vec!["K.", "X.panic"],
        jobs: jobs_c16,
    }
}

/// C17: keys 1 and 2 share their 64-bit hash; the tiers are raced against each other.
pub fn jobs_c17(tier: Tier) -> Vec<HTJob> {
    const K2: u64 = 2;
    let ins = |k| HTOp::Ins { k, sz: SMALL };
    let rm = |k| HTOp::Rm { k };
    let get = |k| HTOp::Get { k };
    let fill = HTOp::Fill { n: 2 };
    let k2_on_disk = vec![HOp::Ins { k: K2, sz: SMALL, loc: Loc::Default }, HOp::Fill { n: 2 }, HOp::Wait];
    let bound = if tier == Tier::Thorough { 2 } else { 1 };
    let mut v = vec![];
    for mut cfg in cfgs(tier) {
        cfg.hash_table = vec![0, 7, 7];
        let mut progs = vec![
            vec![vec![ins(K1)], vec![get(K2)]],
            vec![vec![ins(K1), fill], vec![get(K2), get(K1)]],
            vec![vec![rm(K1)], vec![get(K2)]],
        ];
        if tier == Tier::Thorough {
            progs.push(vec![vec![ins(K1)], vec![ins(K2)], vec![fill, get(K1)]]);
            progs.push(vec![vec![ins(K1), get(K1)], vec![ins(K2), get(K2)]]);
            progs.push(vec![vec![get(K1)], vec![get(K2)]]);
        }
        for th in progs {
            v.push(HTJob {
                cfg: cfg.clone(),
                prologue: k2_on_disk.clone(),
                threads: th,
                bound,
                rt_workers: 1,
                flat_cost: false,
            });
        }
    }
    v
}

pub fn c17_th() -> THProp {
    THProp {
        id: "C17",
        owned: vec!["R.foreign", "R.garbage", "R.unknown", "X.panic"],
        jobs: jobs_c17,
    }
}

/// C09 at thread granularity: a nearly full 4-block device, client threads that write (forcing a reclaim)
/// and read entries of the block being reclaimed, and TWO runtime workers, so that the flusher, the reclaimer
/// and the lookups' load tasks run in parallel with each other and with the callers.
pub fn jobs_c09(tier: Tier) -> Vec<HTJob> {
    let page_entry = 3000usize; // one page per entry: three entries fill a 16 KiB block
    let ins = |k| HTOp::Ins { k, sz: page_entry };
    let get = |k| HTOp::Get { k };
    let rm = |k| HTOp::Rm { k };
    let mut v = vec![];
    for reinsert in [false, true] {
        let mut cfg = HybCfg::small(true, true);
        cfg.blocks = 4;
        cfg.mem_capacity = 1;
        cfg.flushers = 1;
        cfg.reclaimers = 1;
        cfg.clean_threshold = 1;
        if reinsert {
            cfg.reinsert = vec![1];
        }
        // blocks 0..2 full (keys 1..=9), block 3 holds two entries (keys 10, 11), everything flushed: the next
        // one-page entry completes block 3, the flusher then needs a clean block and block 0 is reclaimed
        let mut prologue: Vec<HOp> = (1..=11u64).map(|k| HOp::Ins { k, sz: page_entry, loc: Loc::Default }).collect();
        prologue.push(HOp::Wait);
        let mut progs = vec![
            vec![vec![ins(12), ins(13)], vec![get(1)]],
            vec![vec![ins(12), ins(13)], vec![rm(1)]],
            vec![vec![ins(12), ins(13)], vec![get(2)], vec![get(3)]],
        ];
        if tier == Tier::Thorough {
            progs.push(vec![vec![ins(12), ins(13)], vec![ins(1), get(1)]]);
            progs.push(vec![vec![ins(12), ins(13), ins(14)], vec![get(1), get(4)]]);
        }
        for th in progs {
            // deviation bound: 1 everywhere and 2 for the two-client programs without reinsertion (quick);
            // 2 everywhere, then 3 as far as the wall cap allows (thorough)
            let deep = th.len() == 2 && !reinsert;
            let bounds: Vec<usize> = match tier {
                Tier::Quick => {
                    if deep {
                        vec![2]
                    } else {
                        vec![1]
                    }
                }
                Tier::Thorough => vec![2, 3],
            };
            for bound in bounds {
            v.push(HTJob {
                cfg: cfg.clone(),
                prologue: prologue.clone(),
                threads: th.clone(),
                bound,
                rt_workers: 2,
                flat_cost: true,
            });
            }
        }
    }
    v
}

pub fn c09_th() -> THProp {
    THProp {
        id: "C09",
        owned: vec!["R.", "X.", "K."],
        jobs: jobs_c09,
    }
}

/// C15 at thread granularity: close() on one thread against inserts / lookups on others.
pub fn jobs_c15(tier: Tier) -> Vec<HTJob> {
    const K2: u64 = 2;
    let ins = |k| HTOp::Ins { k, sz: SMALL };
    let get = |k| HTOp::Get { k };
    let one = vec![HOp::Ins { k: K1, sz: SMALL, loc: Loc::Default }];
    let bound = if tier == Tier::Thorough { 2 } else { 1 };
    let mut v = vec![];
    for cfg in cfgs(tier) {
        let mut progs = vec![
            vec![vec![HTOp::Close], vec![ins(K2)]],
            vec![vec![HTOp::Close], vec![get(K1)]],
            vec![vec![HTOp::Close], vec![HTOp::Close]],
        ];
        if tier == Tier::Thorough {
            progs.push(vec![vec![HTOp::Close], vec![ins(K2), get(K2)]]);
            progs.push(vec![vec![HTOp::Close], vec![ins(K1)], vec![get(K1)]]);
            progs.push(vec![vec![HTOp::Close, ins(K2)], vec![HTOp::Close]]);
        }
        for th in progs {
            v.push(HTJob {
                cfg: cfg.clone(),
                prologue: one.clone(),
                threads: th,
                bound,
                rt_workers: 1,
                flat_cost: false,
            });
        }
    }
    v
}

pub fn c15_th() -> THProp {
    THProp {
        id: "C15",
        owned: vec!["D.", "R.", "X.", "K."],
        jobs: jobs_c15,
    }
}

pub fn c01_th() -> THProp {
    THProp {
        id: "C01",
        owned: vec!["R.", "X."],
        jobs: jobs_c01,
    }
}

impl Prop for THProp {
    fn id(&self) -> &'static str {
        self.id
    }

    fn worker(&self, tier: Tier, shard: (usize, usize), deadline: Instant) -> ShardResult {
        let mut res = ShardResult::default();
        let js = (self.jobs)(tier);
        if shard.0 == 0 {
            res.add("th_jobs_total", js.len() as u64);
        }
        let max_execs = if tier == Tier::Thorough { 100_000 } else { 20_000 };
        for (i, job) in js.iter().enumerate() {
            if Instant::now() >= deadline {
                res.capped = true;
                res.notes.insert("wall cap reached before all hybrid thread programs were explored".into());
                break;
            }
            if res.samples.len() < 1 && shard.0 == 0 {
                res.sample(json!({"engine": "TH", "job": job}), 1);
            }
            if shard.0 == 0 {
                res.add("th_programs", 1);
            }
            let before = res.get("th_executions");
            let t0 = Instant::now();
            let keep = explore_job(self, job, &mut res, deadline, max_execs, shard);
            if std::env::var_os("VERIF_TH_STATS").is_some() {
                eprintln!("TH job {i}: {} executions in {:.1}s :: {} on {}", res.get("th_executions") - before, t0.elapsed().as_secs_f64(), thread_text(job), job.cfg.name());
            }
            if !keep {
                break;
            }
        }
        crate::hyb::cleanup_scratch();
        res
    }

    fn replay(&self, witness: &Value, verbose: bool) -> Vec<Violation> {
        let job: HTJob = serde_json::from_value(witness["job"].clone()).expect("job");
        let choices: Vec<u32> = serde_json::from_value(witness["choices"].clone()).expect("choices");
        let ctx = Arc::new(Mutex::new(Ctx::new(choices).with_trace(verbose)));
        let pid = self.id;
        let dsig = sig("K.deadlock", &job);
        let handler: sched::DeadlockHandler = Box::new(move |desc: &str| {
            println!("REPLAY property={pid} clause=K.deadlock signature={dsig} :: threads deadlocked: {desc}");
            println!("VIOLATION property={pid} replay=<this file>");
            std::process::exit(1);
        });
        let out = execute(&job, ctx.clone(), handler);
        let c = ctx.lock().unwrap();
        if let Some(d) = &c.diverged {
            eprintln!("MACHINERY: {d}");
            std::process::exit(vcore::EXIT_MACHINERY);
        }
        if verbose {
            println!("replaying hybrid thread program: {} on {}", thread_text(&job), job.cfg.name());
            for l in c.labels.iter() {
                println!("  {l}");
            }
            for l in out.trace.iter() {
                println!("  {l}");
            }
        }
        let mut vs = vec![];
        for (clause, msg) in out.complaints {
            if !self.owned.iter().any(|o| clause.starts_with(o)) {
                continue;
            }
            let signature = sig(&clause, &job);
            if !vs.iter().any(|v: &Violation| v.signature == signature) {
                vs.push(Violation {
                    property: self.id.into(),
                    clause,
                    signature,
                    message: msg,
                    witness: witness.clone(),
                });
            }
        }
        crate::hyb::cleanup_scratch();
        vs
    }

    fn rule(&self) -> String {
        "Engine TH: the real hybrid cache (memory tier + block engine on a tmpfs device, sim IO engine) called by 2-3 controlled OS threads while a further controlled thread is the runtime worker (one task poll or one device IO completion per step). Scheduling points: every parking_lot lock acquire/release inside foyer (memory shards, in-flight table, write-queue index, disk index), every runtime step, spawn/join/park. Programs: all unordered pairs of single calls over {insert, remove, get, get_or_fetch} on one contended key, two-call vs one-call programs with memory eviction in between (thorough: more, and three threads), from three initial states (empty; key on disk only; key in memory), write-on-insertion and write-on-eviction. Every interleaving with at most 1 (quick) / 2 (thorough) preemptions is executed. After the threads are joined and the runtime has quiesced, the key is read from memory, from disk (after evicting memory) and after a graceful restart. Oracle: register R over the recorded invoke/response intervals; the three final reads must not return different versions; no panic, no deadlock / unanswered caller. distinct = distinct vector of lookup results.".into()
    }

    fn assumptions(&self) -> Vec<String> {
        vec![
            "one runtime worker thread: tasks never run in parallel with each other, only with client calls".into(),
            "atomics and the channel operations between lock operations execute atomically; std::sync locks of the block manager are touched by the runtime worker only".into(),
        ]
    }

    fn bounds(&self, tier: Tier) -> Value {
        let js = (self.jobs)(tier);
        json!({"hybrid_thread_programs": js.len(), "client_threads": 3, "runtime_threads": 1, "preemption_bound": js.iter().map(|j| j.bound).max()})
    }

    fn vacuity(&self, _tier: Tier, r: &ShardResult) -> Vec<String> {
        let mut v = vec![];
        if r.get("th_executions") == 0 || r.get("context_switches") == 0 {
            v.push("no hybrid thread interleaving was explored".into());
        }
        if r.get("disk_hits") == 0 {
            v.push("no lookup was ever served from disk".into());
        }
        v
    }

    fn wall_cap(&self, tier: Tier) -> Duration {
        match tier {
            Tier::Quick => Duration::from_secs(150),
            Tier::Thorough => Duration::from_secs(1500),
        }
    }
}
