//! C10 — with the tombstone log, a flushed delete survives any number of restarts.
//!
//! Histories are long (hundreds of deletes) and sequential; what is enumerated is the product of
//! delete counts around the log's page boundaries, batching (one delete per flush / all in one
//! flush), the kind of restart (graceful / crash after `wait`), the number of cycles and the
//! re-inserted subset. Every history runs on the real cache through vrt + simio (FIFO schedule).

use std::{
    collections::BTreeMap,
    time::{Duration, Instant},
};

use serde::{Deserialize, Serialize};
use serde_json::{json, Value};
use vcore::evidence::{ShardResult, Violation};

use crate::{
    framework::{Prop, Tier},
    hyb::*,
};

#[derive(Debug, Clone, Serialize, Deserialize)]
pub struct C10Job {
    /// Device log pages (2 => 512 slots, 3 => 768 slots).
    pub log_pages: usize,
    /// Deletes per cycle.
    pub deletes: Vec<usize>,
    pub one_per_batch: bool,
    /// Per restart: true = crash after wait, false = graceful close.
    pub crash: Vec<bool>,
    /// Re-insert every n-th previously deleted key after each restart (0 = none).
    pub reinsert_every: usize,
}

pub struct C10Prop;

const SLOTS_PER_PAGE: usize = 256;

fn cfg_for(job: &C10Job) -> HybCfg {
    let mut c = HybCfg::small(true, true);
    c.block_size = 64 * 1024;
    // capacity/PAGE slots => pages = ceil(slots/256); choose blocks so that the log has `log_pages` pages.
    // 2 pages: 512 slots = 2 MiB; 3 pages: 768 slots = 3 MiB. The log partition is carved out first.
    c.blocks = job.log_pages * 16 - 1;
    c.device_capacity = job.log_pages * SLOTS_PER_PAGE * 4096;
    c.mem_capacity = 4;
    c.buffer_pool_size = 8 * 1024 * 1024;
    c.indexer_shards = 4;
    c
}

fn run_history(job: &C10Job, res: &mut ShardResult) -> Vec<(String, String)> {
    let mut complaints = vec![];
    tokio::sim::reset();
    let cfg = cfg_for(job);
    let mut w = World::new(cfg.clone());
    // Force the device capacity so that the log has exactly `log_pages` pages.
    if let Err(e) = w.open() {
        return vec![("X.open".into(), e)];
    }
    let capacity_slots = w.device_capacity() / 4096;
    res.max("log_slots", capacity_slots as u64);
    // key -> (state) : Some(ver) = must read as >= ver ; None = must be absent.
    let mut expect: BTreeMap<u64, Option<u64>> = BTreeMap::new();
    let mut next_key = 1u64;
    let mut op = 0usize;
    let mut inserted_total = 0usize;
    let budget = (cfg.blocks - 2) * 15 - 16;
    let mut deleted_keys: Vec<u64> = vec![];
    for (cycle, n) in job.deletes.iter().enumerate() {
        // keys of this cycle
        let keys: Vec<u64> = (0..*n as u64).map(|i| next_key + i).collect();
        next_key += *n as u64;
        // Put as many of them on disk as the device holds without reclaiming.
        let on_disk: Vec<u64> = keys
            .iter()
            .copied()
            .filter(|_| {
                if inserted_total < budget {
                    inserted_total += 1;
                    true
                } else {
                    false
                }
            })
            .collect();
        for chunk in on_disk.chunks(200) {
            for k in chunk {
                w.issue(op, &HOp::Ins { k: *k, sz: 64, loc: Loc::Default });
                op += 1;
            }
            w.quiesce();
        }
        w.issue(op, &HOp::Wait);
        op += 1;
        w.quiesce();
        // Deletes.
        for k in keys.iter() {
            w.issue(op, &HOp::Rm { k: *k });
            op += 1;
            if job.one_per_batch {
                w.quiesce();
            }
        }
        w.issue(op, &HOp::Wait);
        op += 1;
        w.quiesce();
        for k in keys.iter() {
            expect.insert(*k, None);
            deleted_keys.push(*k);
        }
        res.add("deletes", keys.len() as u64);
        // Restart.
        let crash = job.crash.get(cycle).copied().unwrap_or(false);
        if crash {
            if let Err(e) = w.crash_and_reopen() {
                complaints.push(("X.reopen".to_string(), format!("cycle {cycle}: {e}")));
                return complaints;
            }
        } else {
            w.graceful_restart();
        }
        res.add("restarts", 1);
        // Check every key that was ever deleted or re-inserted.
        let keys_to_check: Vec<u64> = expect.keys().copied().collect();
        let before = w.hist.lock().unwrap().lookups.len();
        w.read_all(&keys_to_check, "after-restart");
        {
            let h = w.hist.lock().unwrap();
            for l in h.lookups[before..].iter() {
                match (expect.get(&l.key).copied().flatten(), &l.res) {
                    (None, LookupRes::Miss) => {}
                    (None, LookupRes::Hit { ver, .. }) => complaints.push((
                        "T.resurrected".into(),
                        format!(
                            "key {} was deleted and flushed but reads v{ver} after restart #{} ({} deletes logged so far, log of {} slots)",
                            l.key,
                            cycle + 1,
                            deleted_keys.len(),
                            capacity_slots
                        ),
                    )),
                    (Some(want), LookupRes::Hit { ver, .. }) => {
                        if *ver < want {
                            complaints.push(("T.stale".into(), format!("key {} reads v{ver}, expected v{want} after restart #{}", l.key, cycle + 1)));
                        }
                    }
                    (Some(want), LookupRes::Miss) => complaints.push((
                        "T.hidden".into(),
                        format!("key {} was re-inserted as v{want} after its delete but is hidden after restart #{}", l.key, cycle + 1),
                    )),
                    (_, other) => complaints.push(("T.bad-read".into(), format!("key {} reads {:?} after restart #{}", l.key, other, cycle + 1))),
                }
                res.add("reads_after_restart", 1);
            }
            for p in h.panics.iter() {
                complaints.push(("X.panic".into(), p.clone()));
            }
        }
        if !complaints.is_empty() {
            return complaints;
        }
        // Re-insert a subset of the deleted keys (they must not be hidden by their old tombstones).
        if job.reinsert_every > 0 && cycle + 1 < job.deletes.len() {
            let subset: Vec<u64> = deleted_keys.iter().copied().step_by(job.reinsert_every).take(12).collect();
            for k in subset {
                if inserted_total >= budget {
                    break;
                }
                inserted_total += 1;
                w.issue(op, &HOp::Ins { k, sz: 64, loc: Loc::Default });
                op += 1;
                let ver = *w.hist.lock().unwrap().next_ver.get(&k).unwrap();
                expect.insert(k, Some(ver));
            }
            w.issue(op, &HOp::Wait);
            op += 1;
            w.quiesce();
        }
    }
    res.add("steps", w.steps as u64);
    let log = w.io.log();
    res.add("io_writes", log.iter().filter(|r| r.kind == crate::simio::IoKind::Write).count() as u64);
    complaints
}

fn jobs(tier: Tier) -> Vec<C10Job> {
    let mut v = vec![];
    if tier == Tier::Quick {
        for log_pages in [2usize, 3] {
            let cap = log_pages * SLOTS_PER_PAGE;
            let n1s: Vec<usize> = vec![1, 255, 256, 257, 300, 511, 512, 513, cap - 1, cap].into_iter().filter(|n| *n <= cap).collect();
            for n1 in n1s.iter() {
                for n2 in [1usize, 10, 256] {
                    for one_per_batch in [false, true] {
                        if one_per_batch && *n1 > 300 {
                            continue;
                        }
                        for crash in [false, true] {
                            if n1 + n2 + 2 > cap {
                                continue;
                            }
                            v.push(C10Job {
                                log_pages,
                                deletes: vec![*n1, n2, 2],
                                one_per_batch,
                                crash: vec![crash, !crash, crash],
                                reinsert_every: 37,
                            });
                        }
                    }
                }
            }
        }
    } else {
        // Thorough: logs of 2, 3 and 4 pages; first-cycle counts at and next to every page boundary and the log
        // capacity; second / third / fourth cycles of 0, 1, 2, 10, 255..257 deletes; every graceful/crash pattern.
        for log_pages in [2usize, 3, 4] {
            let cap = log_pages * SLOTS_PER_PAGE;
            let mut n1s: Vec<usize> = vec![1, 2, 254, 255, 256, 257, 258, 300, 510, 511, 512, 513, 514, 767, 768, 769, cap - 2, cap - 1, cap];
            n1s.retain(|n| *n <= cap && *n >= 1);
            n1s.sort();
            n1s.dedup();
            for n1 in n1s.iter() {
                for n2 in [0usize, 1, 2, 10, 255, 256, 257] {
                    for n3 in [0usize, 2, 256] {
                        for n4 in [0usize, 3] {
                            if n1 + n2 + n3 + n4 > cap || (n2 == 0 && (n3 > 0 || n4 > 0)) || (n3 == 0 && n4 > 0) {
                                continue;
                            }
                            let deletes: Vec<usize> = [*n1, n2, n3, n4].into_iter().filter(|n| *n > 0).collect();
                            for one_per_batch in [false, true] {
                                if one_per_batch && *n1 > 520 {
                                    continue;
                                }
                                for pattern in 0..8u8 {
                                    let crash: Vec<bool> = (0..4).map(|i| pattern & (1 << (i % 3)) != 0).collect();
                                    v.push(C10Job {
                                        log_pages,
                                        deletes: deletes.clone(),
                                        one_per_batch,
                                        crash,
                                        reinsert_every: 37,
                                    });
                                }
                            }
                        }
                    }
                }
            }
        }
    }
    v.sort_by_key(|j| (j.log_pages, j.deletes.clone(), j.one_per_batch));
    v.dedup_by_key(|j| (j.log_pages, j.deletes.clone(), j.one_per_batch, j.crash.clone()));
    v
}

impl Prop for C10Prop {
    fn id(&self) -> &'static str {
        "C10"
    }

    fn worker(&self, tier: Tier, shard: (usize, usize), deadline: Instant) -> ShardResult {
        let mut res = ShardResult::default();
        let js = jobs(tier);
        if shard.0 == 0 {
            res.add("jobs_total", js.len() as u64);
        }
        for (i, job) in js.iter().enumerate() {
            if i % shard.1 != shard.0 {
                continue;
            }
            if Instant::now() >= deadline {
                res.capped = true;
                break;
            }
            let c = run_history(job, &mut res);
            res.add("executions", 1);
            res.fp(vcore::fingerprint(&(job.log_pages, &job.deletes, job.one_per_batch, &job.crash)));
            if res.samples.len() < 2 {
                res.sample(json!({"engine": "V", "history": job}), 2);
            }
            for (clause, msg) in c {
                let signature = format!("{clause}|pages{}|cycles{}", job.log_pages, job.deletes.len());
                if !res.violations.iter().any(|v| v.signature == signature) {
                    res.violations.push(Violation {
                        property: "C10".into(),
                        clause: clause.clone(),
                        signature,
                        message: format!("{msg}  [history: deletes per cycle {:?}, one-per-batch {}, crash {:?}]", job.deletes, job.one_per_batch, job.crash),
                        witness: json!({"engine": "V", "job": job}),
                    });
                }
            }
            if res.violations.len() >= 4 {
                break;
            }
        }
        cleanup_scratch();
        res
    }

    fn replay(&self, witness: &Value, verbose: bool) -> Vec<Violation> {
        let job: C10Job = serde_json::from_value(witness["job"].clone()).expect("witness job");
        let mut res = ShardResult::default();
        let c = run_history(&job, &mut res);
        if verbose {
            println!("replaying C10 history {:?}", job);
        }
        let mut vs = vec![];
        for (clause, msg) in c {
            let signature = format!("{clause}|pages{}|cycles{}", job.log_pages, job.deletes.len());
            if !vs.iter().any(|v: &Violation| v.signature == signature) {
                vs.push(Violation {
                    property: "C10".into(),
                    clause,
                    signature,
                    message: msg,
                    witness: witness.clone(),
                });
            }
        }
        cleanup_scratch();
        vs
    }

    fn rule(&self) -> String {
        "Engine V (FIFO schedule, sim IO): the full product of first-cycle delete counts {1,255,256,257,300,511,512,513,capacity-1,capacity} x later-cycle counts x {all deletes in one flush, one delete per flush} x {graceful restart, crash after wait()} alternating over up to 3 restart cycles, on devices whose tombstone log has 2 and 3 pages (512 / 768 slots), with a subset of deleted keys re-inserted between cycles. Every deleted key was first written to disk (as far as the device holds them without reclaiming). After every reopen every key ever deleted is read: deleted-and-flushed keys must be absent, re-inserted keys must read their new version. A case is one history; distinct = distinct parameter tuple.".into()
    }

    fn assumptions(&self) -> Vec<String> {
        vec![
            "schedules are not varied here (one FIFO schedule per history); C04 varies crash points".into(),
            "delete counts stay within the log capacity (one tombstone per device page), as the property states".into(),
        ]
    }

    fn bounds(&self, tier: Tier) -> Value {
        json!({"histories": jobs(tier).len(), "log_pages": [2, 3], "max_restart_cycles": 3})
    }

    fn vacuity(&self, _tier: Tier, r: &ShardResult) -> Vec<String> {
        let mut v = vec![];
        if r.get("executions") == 0 || r.get("restarts") == 0 || r.get("reads_after_restart") == 0 {
            v.push("no history ran to a restart".into());
        }
        if r.fingerprints.len() < 2 {
            v.push("fewer than two distinct histories".into());
        }
        v
    }

    fn wall_cap(&self, tier: Tier) -> Duration {
        match tier {
            Tier::Quick => Duration::from_secs(150),
            Tier::Thorough => Duration::from_secs(900),
        }
    }
}
