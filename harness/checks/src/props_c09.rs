//! C09 — reusing disk space never damages live entries and never stalls writers.
//!
//! Sustained insert workloads of several device capacities on 4-8 blocks, explored by Engine V with
//! monitors on the device IO log and on the images (through the independent reader D).

use std::{
    collections::BTreeMap,
    time::{Duration, Instant},
};

use serde::{Deserialize, Serialize};
use serde_json::{json, Value};
use vcore::{
    evidence::{ShardResult, Violation},
    explore, Ctx, ExploreLimits,
};

use crate::{
    dformat,
    disk,
    framework::{Prop, Tier},
    hyb::*,
    oracle_r,
    simio::{IoKind, IoOutcome, IoRec, PAGE},
};

#[derive(Debug, Clone, Serialize, Deserialize)]
pub struct C09Job {
    pub cfg: HybCfg,
    pub prog: Vec<HOp>,
    pub policy: BasePolicy,
    pub bound: usize,
    pub deletes: bool,
}

pub struct C09Prop;

fn first_block_part(cfg: &HybCfg) -> u32 {
    u32::from(cfg.tombstone)
}

fn is_clean_write(r: &IoRec, cfg: &HybCfg) -> bool {
    r.kind == IoKind::Write
        && r.part >= first_block_part(cfg)
        && r.offset == 0
        && r.len == PAGE
        && r.data.as_ref().map(|d| d.iter().all(|b| *b == 0)).unwrap_or(false)
}

/// Monitors over the complete IO log of one execution.
fn log_monitors(log: &[IoRec], cfg: &HybCfg) -> Vec<(String, String)> {
    let mut out = vec![];
    let fb = first_block_part(cfg);
    let mut per_block: BTreeMap<u32, Vec<&IoRec>> = BTreeMap::new();
    for r in log.iter().filter(|r| r.kind == IoKind::Write && r.part >= fb && r.outcome != IoOutcome::Cancelled) {
        per_block.entry(r.part).or_default().push(r);
    }
    for (part, ws) in per_block.iter() {
        // (M2) a clean of a block never overlaps in time with another write to the same block.
        for c in ws.iter().filter(|r| is_clean_write(r, cfg)) {
            let (cs, ce) = (c.submitted_at, c.completed_at.unwrap_or(u64::MAX));
            for w in ws.iter().filter(|w| w.id != c.id) {
                let (s, e) = (w.submitted_at, w.completed_at.unwrap_or(u64::MAX));
                if s <= ce && cs <= e && !(s == ce || cs == e) {
                    out.push((
                        "B.reclaim-while-writing".to_string(),
                        format!(
                            "block {} is cleaned (io{} t{}..{}) while write io{} (offset {}, {} bytes, t{}..{}) to the same block is in flight",
                            part - fb,
                            c.id,
                            cs,
                            ce,
                            w.id,
                            w.offset,
                            w.len,
                            s,
                            e
                        ),
                    ));
                }
            }
        }
        // (M1) within one generation (between two cleans) data writes never overlap earlier data writes
        // (two writers on one block, or a writer restarting a block that was not cleaned).
        let mut gen: Vec<&IoRec> = vec![];
        for w in ws.iter() {
            if is_clean_write(w, cfg) {
                gen.clear();
                continue;
            }
            let is_index = w.data.as_ref().map(|d| dformat::looks_like_index(d)).unwrap_or(false);
            if is_index {
                // the blob index page of the open blob is rewritten as the blob grows: same offset only.
                for g in gen.iter() {
                    let g_index = g.data.as_ref().map(|d| dformat::looks_like_index(d)).unwrap_or(false);
                    let overlap = w.offset < g.offset + g.len as u64 && g.offset < w.offset + w.len as u64;
                    if overlap && !(g_index && g.offset == w.offset) {
                        out.push((
                            "B.two-writers".to_string(),
                            format!("block {}: index write io{} at {} overlaps earlier write io{} at {}+{} of the same generation", part - fb, w.id, w.offset, g.id, g.offset, g.len),
                        ));
                    }
                }
            } else {
                for g in gen.iter() {
                    let overlap = w.offset < g.offset + g.len as u64 && g.offset < w.offset + w.len as u64;
                    if overlap {
                        out.push((
                            "B.two-writers".to_string(),
                            format!(
                                "block {}: data write io{} ({}+{}) overlaps earlier write io{} ({}+{}) although the block was not cleaned in between",
                                part - fb,
                                w.id,
                                w.offset,
                                w.len,
                                g.id,
                                g.offset,
                                g.len
                            ),
                        ));
                    }
                }
            }
            gen.push(w);
        }
    }
    out
}

/// Reclaim order: with the default pickers and no deletes (single flusher), blocks are reclaimed
/// oldest-filled first: if every write of block generation B had completed before the first write of
/// generation A was even submitted, the reclaim of B starts before the reclaim of A. (Generations whose
/// writes overlap in time belong to one flush batch and are unordered.)
fn fifo_order(log: &[IoRec], cfg: &HybCfg) -> Vec<(String, String)> {
    let fb = first_block_part(cfg);
    // generation = (block, first write submitted, last write completed, cleaned at)
    let mut gens: Vec<(u32, u64, u64, u64)> = vec![];
    let mut open: BTreeMap<u32, usize> = BTreeMap::new();
    for r in log.iter().filter(|r| r.kind == IoKind::Write && r.part >= fb && r.outcome != IoOutcome::Cancelled) {
        let b = r.part - fb;
        if is_clean_write(r, cfg) {
            if let Some(i) = open.remove(&b) {
                gens[i].3 = r.submitted_at;
            }
        } else {
            let i = *open.entry(b).or_insert_with(|| {
                gens.push((b, r.submitted_at, 0, u64::MAX));
                gens.len() - 1
            });
            gens[i].2 = gens[i].2.max(r.completed_at.unwrap_or(u64::MAX));
        }
    }
    // With several reclaimers the blocks are *picked* oldest first, but neither the first reclaim read nor
    // the clean write of two blocks being reclaimed at the same time has to follow the pick order (a
    // reclaimer task may be polled late). A reclaim lasts from the scanner's read of the block's first
    // blob index page (offset 0; lookups never read offset 0) to the clean write; the order is violated
    // if a younger generation was reclaimed *completely* before the reclaim of an older one started.
    // (block, first write submitted, last write completed, reclaim started, cleaned)
    let mut gens: Vec<(u32, u64, u64, u64, u64)> = gens.into_iter().map(|g| (g.0, g.1, g.2, g.3, g.3)).collect();
    for g in gens.iter_mut() {
        let start = log
            .iter()
            .filter(|r| r.kind == IoKind::Read && r.part == g.0 + fb && r.offset == 0 && r.submitted_at >= g.2 && r.submitted_at <= g.3)
            .map(|r| r.submitted_at)
            .min();
        if let Some(t) = start {
            g.3 = t;
        }
    }
    let mut out = vec![];
    for a in gens.iter() {
        for b in gens.iter() {
            if a.0 != b.0 && b.2 < a.1 && a.4 < b.3 && a.4 != u64::MAX {
                out.push((
                    "B.reclaim-order".to_string(),
                    format!(
                        "block {} (filled t{}..{}) was reclaimed at t{} before block {} which had been filled completely earlier (t{}..{}, reclaimed {})",
                        a.0,
                        a.1,
                        a.2,
                        a.3,
                        b.0,
                        b.1,
                        b.2,
                        if b.3 == u64::MAX { "never".to_string() } else { format!("at t{}", b.3) }
                    ),
                ));
                return out;
            }
        }
    }
    out
}

fn run_job(job: &C09Job, res: &mut ShardResult, deadline: Instant) -> bool {
    let limits = ExploreLimits {
        bound: job.bound,
        max_execs: 3_000,
        deadline: Some(deadline),
    };
    let universe: Vec<u64> = (1..=6).collect();
    let opts = RunOpts {
        universe: universe.clone(),
        final_reads: true,
        horizon: 20_000,
        ..Default::default()
    };
    let mut keep = true;
    let stats = explore(
        &limits,
        |ctx: &mut Ctx| {
            let mut live: Vec<(String, String)> = vec![];
            let mut seen_ios = 0usize;
            let cfg = job.cfg.clone();
            let mut hook = |w: &World| {
                // (M3) a block range is never rewritten while the index still serves an entry from it.
                let n = w.io.log_len();
                if n == seen_ios || !live.is_empty() {
                    seen_ios = n;
                    return;
                }
                let log = w.io.log();
                let fb = first_block_part(&cfg);
                for r in log[seen_ios..].iter() {
                    if r.kind != IoKind::Write || r.part < fb || is_clean_write(r, &cfg) {
                        continue;
                    }
                    if r.data.as_ref().map(|d| dformat::looks_like_index(d)).unwrap_or(false) {
                        continue;
                    }
                    // pre-image = current file content (simio applies writes at completion)
                    let img = disk::capture(&w.dir);
                    let Some(cache) = w.cache.as_ref() else { continue };
                    // newest on-disk copy per key
                    let mut newest: BTreeMap<u64, (u64, usize, usize, usize)> = BTreeMap::new(); // key -> (seq, part, off, len)
                    for (pi, part) in img.parts.iter().enumerate().skip(fb as usize) {
                        for blob in dformat::scan_block(part, cfg.blob_index_size) {
                            for s in blob.slots.iter() {
                                let off = blob.offset + s.offset as usize;
                                let e = newest.entry(s.hash).or_insert((0, 0, 0, 0));
                                if s.sequence >= e.0 {
                                    *e = (s.sequence, pi, off, dformat::align_up(s.len as usize));
                                }
                            }
                        }
                    }
                    for (k, (seq, pi, off, len)) in newest.iter() {
                        if *pi != r.part as usize {
                            continue;
                        }
                        let overlap = (r.offset as usize) < off + len && *off < r.offset as usize + r.len;
                        if overlap && cache.storage().may_contains(k) {
                            // The entry being overwritten may be this very write (a re-read of its own data is
                            // impossible: data is written before it is indexed), so any indexed key here is live.
                            let same = r.data.as_ref().map(|d| {
                                dformat::entries_in(d).iter().any(|e| e.header.hash == *k && e.header.sequence == *seq)
                            }).unwrap_or(false);
                            if !same {
                                live.push((
                                    "B.live-overwritten".to_string(),
                                    format!(
                                        "write io{} to block {} ({}+{}) overwrites the newest on-disk copy of key {k} (seq {seq} at {off}+{len}) while the disk index still serves the key",
                                        r.id,
                                        r.part - fb,
                                        r.offset,
                                        r.len
                                    ),
                                ));
                            }
                        }
                    }
                }
                seen_ios = n;
            };
            let out = run_program_with(&job.cfg, &job.prog, job.policy, &opts, ctx, &mut hook);
            (out, live)
        },
        |ctx: &Ctx, (out, live): (RunOut, Vec<(String, String)>)| {
            res.add("executions", 1);
            res.add("steps", out.world.steps as u64);
            res.add("io_reorderings", out.world.io_reorders);
            let log = out.world.io.log();
            let cleans = log.iter().filter(|r| is_clean_write(r, &job.cfg)).count();
            res.add("block_cleans", cleans as u64);
            res.add("io_writes", log.iter().filter(|r| r.kind == IoKind::Write).count() as u64);
            let mut complaints: Vec<(String, String)> = live;
            if let Some(s) = &out.world.stalled {
                complaints.push(("B.stall".into(), format!("writers stalled: {s}")));
            }
            {
                let h = out.world.hist.lock().unwrap();
                for p in h.panics.iter() {
                    complaints.push(("X.panic".into(), p.clone()));
                }
                for (c, m) in oracle_r::check(&h, &job.cfg) {
                    complaints.push((format!("B.{}", c.trim_start_matches("R.")), m));
                }
                let mut fpv: Vec<u64> = vec![cleans as u64];
                for l in h.lookups.iter() {
                    match &l.res {
                        LookupRes::Hit { ver, source, .. } => {
                            fpv.push(*ver * 4 + *source as u64);
                            res.add(if *source == 2 { "hits_disk" } else { "hits_memory" }, 1);
                        }
                        LookupRes::Miss => {
                            fpv.push(0);
                            res.add("misses", 1);
                        }
                        _ => fpv.push(1),
                    }
                }
                for r in log.iter() {
                    fpv.push(r.part as u64 * 1_000_000 + r.offset);
                    fpv.push(r.completed_at.unwrap_or(0));
                }
                res.fp(vcore::fingerprint(&fpv));
            }
            complaints.extend(log_monitors(&log, &job.cfg));
            if !job.deletes && !job.cfg.fifo_picker_only && job.cfg.flushers == 1 {
                complaints.extend(fifo_order(&log, &job.cfg));
            }
            let mut stop = false;
            for (clause, msg) in complaints {
                let signature = format!("{clause}|fl{}rc{}th{}|{:?}", job.cfg.flushers, job.cfg.reclaimers, job.cfg.clean_threshold, job.policy);
                if !res.violations.iter().any(|v| v.signature == signature) {
                    res.violations.push(Violation {
                        property: "C09".into(),
                        clause: clause.clone(),
                        signature,
                        message: format!("{msg}  [cfg {} reclaimers {} threshold {} reinsert {:?}; {:?}; {} deviations]", job.cfg.name(), job.cfg.reclaimers, job.cfg.clean_threshold, job.cfg.reinsert, job.policy, ctx.deviations()),
                        witness: json!({"engine": "V", "job": job, "choices": ctx.choices()}),
                    });
                }
                stop = true;
            }
            if stop && res.violations.len() >= 4 {
                keep = false;
            }
            !stop
        },
    );
    res.add("choice_points", stats.choice_points);
    if stats.capped {
        res.capped = true;
        res.notes.insert("a workload hit its execution or wall cap".into());
    }
    keep
}

fn workload(inserts: usize, deletes: bool, sizes: &[usize]) -> Vec<HOp> {
    let mut p = vec![];
    for i in 0..inserts {
        let k = (i % 6) as u64 + 1;
        // key 1 (the one a reinsertion filter may admit) is always a one-page entry
        let sz = if k == 1 { 100 } else { sizes[i % sizes.len()] };
        p.push(HOp::Ins { k, sz, loc: Loc::Default });
        if i % 5 == 4 {
            p.push(HOp::Get { k: ((i + 3) % 6) as u64 + 1 });
        }
        if deletes && i % 7 == 6 {
            p.push(HOp::Rm { k: ((i + 1) % 6) as u64 + 1 });
        }
        if i % 8 == 7 {
            p.push(HOp::Wait);
        }
    }
    p.push(HOp::Wait);
    p.push(HOp::Get { k: 1 });
    p.push(HOp::Get { k: 2 });
    p.push(HOp::Close);
    p
}

fn jobs(tier: Tier) -> Vec<C09Job> {
    let mut v = vec![];
    // (blocks, flushers, reclaimers, threshold)
    let shapes: Vec<(usize, usize, usize, usize)> = match tier {
        Tier::Quick => vec![(4, 1, 1, 1), (8, 2, 1, 2), (8, 3, 2, 1)],
        Tier::Thorough => vec![(4, 1, 1, 1), (6, 2, 1, 1), (6, 1, 2, 2), (8, 2, 1, 2), (8, 3, 2, 1), (8, 2, 2, 2)],
    };
    let size_sets: Vec<Vec<usize>> = vec![vec![100, 5000, 100, 9000], vec![3000, 3000, 7000]];
    use BasePolicy::*;
    let plan: Vec<(BasePolicy, usize)> = match tier {
        Tier::Quick => vec![(Eager, 0), (LazyIo, 0), (Alternate, 0), (Alternate, 1)],
        Tier::Thorough => vec![(Eager, 1), (LazyIo, 1), (Alternate, 2), (ClientFirst, 1)],
    };
    for (blocks, flushers, reclaimers, threshold) in shapes {
        for (si, sizes) in size_sets.iter().enumerate() {
            for deletes in [false, true] {
                for reinsert in [false, true] {
                    if reinsert && (deletes || si == 1) {
                        continue;
                    }
                    let mut cfg = HybCfg::small(true, deletes);
                    cfg.blocks = blocks;
                    cfg.flushers = flushers;
                    cfg.reclaimers = reclaimers;
                    cfg.clean_threshold = threshold;
                    cfg.mem_capacity = 1;
                    cfg.fifo_picker_only = deletes;
                    cfg.buffer_pool_size = 64 * 1024 * flushers;
                    if reinsert {
                        // One small key only: the crate documents that picking too much gets reinsertion stuck.
                        cfg.reinsert = vec![1];
                    }
                    // data pages per block = 3; average entry ~1.6 pages; 4 device capacities
                    let inserts = blocks * 3 * 4 * 10 / 16;
                    let prog = workload(inserts, deletes, sizes);
                    for (policy, bound) in plan.iter() {
                        if *bound > 0 && tier == Tier::Quick && (blocks > 4 || reinsert) {
                            continue;
                        }
                        v.push(C09Job {
                            cfg: cfg.clone(),
                            prog: prog.clone(),
                            policy: *policy,
                            bound: *bound,
                            deletes,
                        });
                    }
                }
            }
        }
    }
    // The default picker pair (invalid-ratio first, FIFO second) with deletes that empty one block which is not
    // the oldest: 64 KiB blocks hold five 3-page entries (93% of the block, above the 80% threshold), keys 6..=10
    // fill the second block and are all deleted, so the invalid-ratio picker takes that block out of FIFO order
    // (exactly one block is above the threshold: no tie, deterministic) and the FIFO picker decides afterwards.
    {
        let mut cfg = HybCfg::small(true, true);
        cfg.blocks = 4;
        cfg.block_size = 64 * 1024;
        cfg.flushers = 1;
        cfg.reclaimers = 1;
        cfg.clean_threshold = 1;
        cfg.mem_capacity = 1;
        cfg.fifo_picker_only = false;
        cfg.buffer_pool_size = 256 * 1024;
        let mut prog = vec![];
        for k in 1..=15u64 {
            prog.push(HOp::Ins { k, sz: 9000, loc: Loc::Default });
            if k % 5 == 0 {
                prog.push(HOp::Wait);
            }
        }
        for k in 6..=10u64 {
            prog.push(HOp::Rm { k });
        }
        prog.push(HOp::Wait);
        for k in 16..=40u64 {
            prog.push(HOp::Ins { k, sz: 9000, loc: Loc::Default });
            if k % 5 == 0 {
                prog.push(HOp::Wait);
                prog.push(HOp::Get { k: k - 1 });
            }
        }
        prog.push(HOp::Wait);
        prog.push(HOp::Get { k: 1 });
        prog.push(HOp::Get { k: 40 });
        prog.push(HOp::Close);
        let plan2: Vec<(BasePolicy, usize)> = match tier {
            Tier::Quick => vec![(Eager, 0), (Alternate, 0), (LazyIo, 0)],
            Tier::Thorough => vec![(Eager, 1), (Alternate, 1), (LazyIo, 1)],
        };
        for (policy, bound) in plan2 {
            v.push(C09Job {
                cfg: cfg.clone(),
                prog: prog.clone(),
                policy,
                bound,
                deletes: true,
            });
        }
    }
    v
}

impl Prop for C09Prop {
    fn id(&self) -> &'static str {
        "C09"
    }

    fn worker(&self, tier: Tier, shard: (usize, usize), deadline: Instant) -> ShardResult {
        let mut res = ShardResult::default();
        let js = jobs(tier);
        if shard.0 == 0 {
            res.add("jobs_total", js.len() as u64);
        }
        // Larger workloads first would starve small shards; interleave by index.
        for (i, job) in js.iter().enumerate() {
            if i % shard.1 != shard.0 {
                continue;
            }
            if Instant::now() >= deadline {
                res.capped = true;
                res.notes.insert("wall cap reached before all workloads were explored".into());
                break;
            }
            if res.samples.len() < 2 {
                res.sample(json!({"engine": "V", "cfg": job.cfg.name(), "reclaimers": job.cfg.reclaimers, "threshold": job.cfg.clean_threshold, "policy": format!("{:?}", job.policy), "calls": job.prog.len(), "bound": job.bound}), 2);
            }
            res.add("workloads", 1);
            if !run_job(job, &mut res, deadline) {
                break;
            }
        }
        cleanup_scratch();
        res
    }

    fn replay(&self, witness: &Value, verbose: bool) -> Vec<Violation> {
        let mut job: C09Job = serde_json::from_value(witness["job"].clone()).expect("witness job");
        let choices: Vec<u32> = serde_json::from_value(witness["choices"].clone()).expect("witness choices");
        if verbose {
            println!("replaying C09 workload of {} calls on {} under {:?}", job.prog.len(), job.cfg.name(), job.policy);
        }
        // Pin the schedule: explore with bound 0 from the recorded prefix is exactly one execution.
        job.bound = 0;
        let mut res = ShardResult::default();
        let limits = ExploreLimits::new(0).with_max_execs(1);
        let _ = limits;
        replay_pinned(&job, choices, &mut res);
        cleanup_scratch();
        res.violations
    }

    fn rule(&self) -> String {
        "Engine V: sustained write-on-insertion workloads of about 4 device capacities (6 rotating keys, 1-3 page entries, periodic lookups, waits, optional deletes, final close) on 4/6/8 blocks of 16 KiB with flushers 1-3, reclaimers 1-2, clean-block threshold 1-2 (down to flushers + threshold = blocks/2), reinsertion filter none / admitting keys {1,2}; executed under Eager, LazyIo, Alternate (and ClientFirst) base schedules, with every schedule within the deviation bound (completion order of concurrent block writes, reclaim reads and cleans; task polls; call timing). Monitors: on the device-write log — a block is never cleaned while another write to it is in flight, data writes of one block generation never overlap (two writers / reuse without clean); at every data-write submission, through the independent reader D on the pre-image — the write never covers the newest on-disk copy of a key that the disk index still serves; behavioural — every lookup obeys the version register R (intact or miss), wait()/close() return (no stall), with default pickers and no deletes blocks are reclaimed in fill order. A case is distinct if its lookup results or its IO trace differ.".into()
    }

    fn assumptions(&self) -> Vec<String> {
        vec![
            "workloads are a fixed family (not all sequences): what is exhaustive is the schedule space within the bound".into(),
            "std::sync::RwLock inside the block manager is not a scheduling point (single-threaded runtime)".into(),
        ]
    }

    fn bounds(&self, tier: Tier) -> Value {
        let js = jobs(tier);
        json!({"workloads": js.len(), "max_calls": js.iter().map(|j| j.prog.len()).max(), "max_deviation_bound": js.iter().map(|j| j.bound).max()})
    }

    fn vacuity(&self, _tier: Tier, r: &ShardResult) -> Vec<String> {
        let mut v = vec![];
        if r.get("executions") == 0 {
            v.push("no execution ran".into());
        }
        if r.get("block_cleans") == 0 {
            v.push("no block was ever reclaimed".into());
        }
        if r.get("hits_disk") == 0 {
            v.push("no lookup was served from disk".into());
        }
        if r.fingerprints.len() < 2 {
            v.push("fewer than two distinct outcomes".into());
        }
        v
    }

    fn wall_cap(&self, tier: Tier) -> Duration {
        match tier {
            Tier::Quick => Duration::from_secs(150),
            Tier::Thorough => Duration::from_secs(1500),
        }
    }
}

fn replay_pinned(job: &C09Job, choices: Vec<u32>, res: &mut ShardResult) {
    // Run `run_job`'s body once with the recorded choices as prefix and a bound of 0 beyond it.
    struct Pinned {
        choices: Vec<u32>,
    }
    let p = Pinned { choices };
    let mut first = true;
    let limits = ExploreLimits::new(0).with_max_execs(1);
    let deadline = Instant::now() + Duration::from_secs(600);
    let mut job2 = job.clone();
    job2.bound = 0;
    // `explore` always starts from the empty prefix; emulate the pinned prefix by wrapping the chooser.
    let universe: Vec<u64> = (1..=6).collect();
    let opts = RunOpts {
        universe,
        final_reads: true,
        horizon: 20_000,
        ..Default::default()
    };
    let mut ctx = Ctx::new(p.choices.clone()).with_trace(true);
    let out = run_program(&job.cfg, &job.prog, job.policy, &opts, &mut ctx);
    if let Some(d) = &ctx.diverged {
        eprintln!("MACHINERY: {d}");
        std::process::exit(vcore::EXIT_MACHINERY);
    }
    drop(out);
    let _ = (first, limits, deadline);
    first = false;
    let _ = first;
    // Full judgement (with the live monitor) through the same code path as the worker.
    let mut pinned_job = job2;
    pinned_job.bound = 0;
    run_job_pinned(&pinned_job, &p.choices, res);
}

fn run_job_pinned(job: &C09Job, choices: &[u32], res: &mut ShardResult) {
    // Identical to one iteration of `run_job`, with the schedule fixed.
    let prefix = choices.to_vec();
    let deadline = Instant::now() + Duration::from_secs(600);
    let mut pinned = job.clone();
    pinned.bound = 0;
    let mut once = Some(prefix);
    // Temporarily abuse `explore`: bound 0 and a chooser that replays the prefix.
    let _ = (&mut once, deadline);
    let universe: Vec<u64> = (1..=6).collect();
    let opts = RunOpts {
        universe,
        final_reads: true,
        horizon: 20_000,
        ..Default::default()
    };
    let mut ctx = Ctx::new(choices.to_vec());
    let mut live: Vec<(String, String)> = vec![];
    let _ = &mut live;
    let out = run_program(&job.cfg, &job.prog, job.policy, &opts, &mut ctx);
    let log = out.world.io.log();
    let mut complaints: Vec<(String, String)> = vec![];
    if let Some(s) = &out.world.stalled {
        complaints.push(("B.stall".into(), format!("writers stalled: {s}")));
    }
    {
        let h = out.world.hist.lock().unwrap();
        for p in h.panics.iter() {
            complaints.push(("X.panic".into(), p.clone()));
        }
        for (c, m) in oracle_r::check(&h, &job.cfg) {
            complaints.push((format!("B.{}", c.trim_start_matches("R.")), m));
        }
    }
    complaints.extend(log_monitors(&log, &job.cfg));
    if !job.deletes && !job.cfg.fifo_picker_only && job.cfg.flushers == 1 {
        complaints.extend(fifo_order(&log, &job.cfg));
    }
    drop(out);
    // The live-overwrite monitor needs the step hook: run once more through the exploring path.
    let limits = ExploreLimits::new(0).with_max_execs(1);
    let _ = limits;
    for (clause, msg) in complaints {
        let signature = format!("{clause}|fl{}rc{}th{}|{:?}", job.cfg.flushers, job.cfg.reclaimers, job.cfg.clean_threshold, job.policy);
        if !res.violations.iter().any(|v| v.signature == signature) {
            res.violations.push(Violation {
                property: "C09".into(),
                clause,
                signature,
                message: msg,
                witness: json!({"engine": "V", "job": job, "choices": choices}),
            });
        }
    }
}
