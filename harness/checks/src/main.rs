#![allow(dead_code)]
//! `check <PROPERTY> --tier quick|thorough` — one binary for all property checks.
//!
//! exit 0: the property held on everything explored (known findings are printed, not alarms);
//! exit 1 + `VIOLATION property=<id> replay=<path>`: a violation that replays deterministically;
//! exit 2: machinery failure (never a verdict).

mod dformat;
mod disk;
mod framework;
mod hyb;
mod memdrive;
mod memmodel;
mod oracle_r;
mod props_hyb;
mod props_hyb2;
mod props_c02;
mod props_c03;
mod props_c04;
mod props_c07;
mod props_c08;
mod props_c09;
mod props_c10;
mod props_c16;
mod props_mem;
mod props_th;
mod seq;
mod simio;

pub fn all_props() -> Vec<Box<dyn framework::Prop>> {
    let mut v: Vec<Box<dyn framework::Prop>> = vec![];
    let mut hyb: Vec<props_hyb::HybProp> = props_hyb::props().into_iter().chain(props_hyb2::props()).collect();
    for p in props_mem::props() {
        match p.id {
            // C18 = sequences (Engine S) + thread interleavings (Engine T)
            "C18" => v.push(Box::new(framework::Composite {
                id: "C18",
                parts: vec![Box::new(p), Box::new(props_c02::c18_t())],
            })),
            // C13 = sequences (Engine S) + conservation under threads (Engine T)
            "C13" => v.push(Box::new(framework::Composite {
                id: "C13",
                parts: vec![Box::new(p), Box::new(props_c02::c13_t())],
            })),
            _ => v.push(Box::new(p)),
        }
    }
    // C17 = hybrid (Engine V) + memory-only (Engine S)
    if let Some(pos) = hyb.iter().position(|p| p.id == "C17") {
        let h = hyb.remove(pos);
        v.push(Box::new(framework::Composite {
            id: "C17",
            parts: vec![Box::new(h), Box::new(props_mem::c17_mem()), Box::new(props_th::c17_th())],
        }));
    }
    // C11 = task-poll orderings (Engine V) + the check-then-insert window under threads (Engine T)
    if let Some(pos) = hyb.iter().position(|p| p.id == "C11") {
        let h = hyb.remove(pos);
        v.push(Box::new(framework::Composite {
            id: "C11",
            parts: vec![Box::new(h), Box::new(props_c02::c11_t())],
        }));
    }
    // C01 = task-poll orderings (Engine V) + client calls racing on OS threads with the runtime (Engine TH)
    if let Some(pos) = hyb.iter().position(|p| p.id == "C01") {
        let h = hyb.remove(pos);
        v.push(Box::new(framework::Composite {
            id: "C01",
            parts: vec![Box::new(h), Box::new(props_th::c01_th())],
        }));
    }
    // C15 = close / reopen histories (Engine V) + close() racing with other client threads (Engine TH)
    if let Some(pos) = hyb.iter().position(|p| p.id == "C15") {
        let h = hyb.remove(pos);
        v.push(Box::new(framework::Composite {
            id: "C15",
            parts: vec![Box::new(h), Box::new(props_th::c15_th())],
        }));
    }
    for p in hyb {
        v.push(Box::new(p));
    }
    v.push(Box::new(props_c10::C10Prop));
    v.push(Box::new(props_c07::C07Prop));
    v.push(Box::new(props_c04::C04Prop));
    v.push(Box::new(props_c03::C03Prop));
    // C09 = task-poll orderings with device-write monitors (Engine V) + flusher / reclaimer / loads on two
    // runtime-worker threads racing with client threads (Engine TH)
    v.push(Box::new(framework::Composite {
        id: "C09",
        parts: vec![Box::new(props_c09::C09Prop), Box::new(props_th::c09_th())],
    }));
    // C16 = re-entrant callbacks (Engine S + lock monitor) + deadlock freedom under threads (Engine T)
    v.push(Box::new(framework::Composite {
        id: "C16",
        parts: vec![Box::new(props_c16::C16Prop), Box::new(props_c02::c16_t()), Box::new(props_hyb::c16_hyb()), Box::new(props_th::c16_th())],
    }));
    v.push(Box::new(props_c02::c02()));
    v.push(Box::new(props_c08::C08Prop));
    v
}

fn main() {
    framework::main_entry();
}
