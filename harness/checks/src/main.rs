#![allow(dead_code)]
//! `check <PROPERTY> --tier quick|thorough` — one binary for all property checks.
//!
//! exit 0: the property held on everything explored (known findings are printed, not alarms);
//! exit 1 + `VIOLATION property=<id> replay=<path>`: a violation that replays deterministically;
//! exit 2: machinery failure (never a verdict).

mod dformat;
mod disk;
mod framework;
mod hyb;
mod memdrive;
mod memmodel;
mod oracle_r;
mod props_hyb;
mod props_hyb2;
mod props_c02;
mod props_c03;
mod props_c04;
mod props_c07;
mod props_c09;
mod props_c10;
mod props_c16;
mod props_mem;
mod seq;
mod simio;

pub fn all_props() -> Vec<Box<dyn framework::Prop>> {
    let mut v: Vec<Box<dyn framework::Prop>> = vec![];
    for p in props_mem::props() {
        v.push(Box::new(p));
    }
    for p in props_hyb::props() {
        v.push(Box::new(p));
    }
    for p in props_hyb2::props() {
        v.push(Box::new(p));
    }
    v.push(Box::new(props_c10::C10Prop));
    v.push(Box::new(props_c07::C07Prop));
    v.push(Box::new(props_c04::C04Prop));
    v.push(Box::new(props_c03::C03Prop));
    v.push(Box::new(props_c09::C09Prop));
    v.push(Box::new(props_c16::C16Prop));
    v.push(Box::new(props_c02::C02Prop));
    v
}

fn main() {
    framework::main_entry();
}
