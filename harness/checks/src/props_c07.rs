//! C07 — what the flusher writes is exactly what recovery and lookups read back.
//!
//! A *batch* is the set of entries enqueued before the flusher task is polled; the harness controls
//! that exactly (it issues the inserts of a batch back to back, then lets everything quiesce).
//! After every batch the device image is parsed by the independent format reader D.

use std::time::{Duration, Instant};

use serde::{Deserialize, Serialize};
use serde_json::{json, Value};
use vcore::evidence::{ShardResult, Violation};

use crate::{
    dformat,
    disk::{self, Image},
    framework::{Prop, Tier},
    hyb::*,
};

#[derive(Debug, Clone, Serialize, Deserialize)]
pub struct C07Job {
    pub regime: char,
    pub block_size: usize,
    pub blocks: usize,
    pub flushers: usize,
    /// Total serialized entry length (header + key + value) per entry, grouped into batches.
    pub batches: Vec<Vec<usize>>,
    /// 0 none, 1 zstd, 2 lz4 (the stored length then differs from the serialized length).
    #[serde(default)]
    pub compression: u8,
}

pub struct C07Prop;

const ENTRY_OVERHEAD: usize = dformat::HEADER_LEN + 8 + 8; // header + u64 key + usize length prefix

fn cfg_for(job: &C07Job) -> HybCfg {
    let mut c = HybCfg::small(true, false);
    c.block_size = job.block_size;
    c.blocks = job.blocks;
    c.flushers = job.flushers;
    c.mem_capacity = 4096;
    c.compression = job.compression;
    c.buffer_pool_size = (4 * 1024 * 1024).max(job.block_size * 2) * job.flushers;
    c.indexer_shards = 2;
    c
}

/// Regime D: wrap-around. The device is filled once (so that the oldest blocks are reclaimed and handed out
/// again), then `batches[1]` more entries are written into a reused block whose previous generation's later
/// blobs are still on the device behind the new data. What is readable from disk is recorded, the store is
/// closed and reopened, and everything is read again: recovery must reconstruct exactly that set — no entry of
/// a reclaimed generation comes back, none of the current ones is lost.
fn run_wrap(job: &C07Job, res: &mut ShardResult) -> Vec<(String, String)> {
    let mut out = vec![];
    tokio::sim::reset();
    let mut cfg = cfg_for(job);
    cfg.mem_capacity = 8;
    let mut w = World::new(cfg.clone());
    if let Err(e) = w.open() {
        return vec![("X.open".into(), e)];
    }
    let mut next_key = 1u64;
    let mut op = 0;
    for (bi, batch) in job.batches.iter().enumerate() {
        // the filling phase goes block by block (254 one-page entries each), the last batch in one go
        let chunk = if bi == 0 { 254 } else { batch.len().max(1) };
        for part in batch.chunks(chunk) {
            for total in part {
                let k = next_key;
                next_key += 1;
                w.issue(op, &HOp::Ins { k, sz: total - ENTRY_OVERHEAD, loc: Loc::Default });
                op += 1;
            }
            w.quiesce();
            res.add("batches", 1);
        }
    }
    let keys: Vec<u64> = (1..next_key).collect();
    w.issue(op, &HOp::EvictAll);
    w.quiesce();
    let readable = |w: &World, from: usize| -> Result<std::collections::BTreeSet<u64>, (String, String)> {
        let h = w.hist.lock().unwrap();
        let mut set = std::collections::BTreeSet::new();
        for l in h.lookups[from..].iter() {
            match &l.res {
                LookupRes::Hit { key, ver: 1, .. } if *key == l.key => {
                    set.insert(l.key);
                }
                LookupRes::Miss => {}
                other => return Err(("Y.unreadable".into(), format!("key {} reads {:?}", l.key, other))),
            }
        }
        Ok(set)
    };
    let before = w.hist.lock().unwrap().lookups.len();
    w.read_all(&keys, "final");
    let r1 = match readable(&w, before) {
        Ok(s) => s,
        Err(e) => return vec![e],
    };
    w.issue(op + 1, &HOp::EvictAll);
    w.graceful_restart();
    let before = w.hist.lock().unwrap().lookups.len();
    w.read_all(&keys, "after-restart");
    let r2 = match readable(&w, before) {
        Ok(s) => s,
        Err(e) => return vec![e],
    };
    res.add("wrap_readable_before", r1.len() as u64);
    res.add("wrap_reclaimed", (keys.len() - r1.len()) as u64);
    let back: Vec<u64> = r2.difference(&r1).copied().collect();
    if !back.is_empty() {
        out.push((
            "Y.resurrected-generation".into(),
            format!("{} keys whose block had been reclaimed (misses before the restart) are served again after reopen, e.g. {:?}: recovery took blobs of a previous generation of a reused block for current ones", back.len(), &back[..back.len().min(6)]),
        ));
    }
    let lost: Vec<u64> = r1.difference(&r2).copied().collect();
    if !lost.is_empty() {
        out.push((
            "Y.unreadable".into(),
            format!("{} keys that were loadable from disk before close are misses after reopen, e.g. {:?}", lost.len(), &lost[..lost.len().min(6)]),
        ));
    }
    for p in w.hist.lock().unwrap().panics.iter() {
        out.push(("X.panic".into(), p.clone()));
    }
    if let Some(s) = &w.stalled {
        out.push(("X.stall".into(), s.clone()));
    }
    res.add("steps", w.steps as u64);
    res.add("entries", keys.len() as u64);
    res.add("hits_disk", r2.len() as u64);
    out
}

fn run(job: &C07Job, res: &mut ShardResult) -> Vec<(String, String)> {
    if job.regime == 'D' {
        return run_wrap(job, res);
    }
    let mut out = vec![];
    tokio::sim::reset();
    let cfg = cfg_for(job);
    let mut w = World::new(cfg.clone());
    if let Err(e) = w.open() {
        return vec![("X.open".into(), e)];
    }
    let mut enq: Vec<(u64, usize)> = vec![]; // (key, total len) in enqueue order
    let mut next_key = 1u64;
    let mut op = 0;
    for (bi, batch) in job.batches.iter().enumerate() {
        for total in batch {
            let k = next_key;
            next_key += 1;
            w.issue(op, &HOp::Ins { k, sz: total - ENTRY_OVERHEAD, loc: Loc::Default });
            op += 1;
            enq.push((k, *total));
        }
        w.quiesce();
        res.add("batches", 1);
        // --- oracle D on the image ---
        let img = disk::capture(&w.dir);
        let c = check_image(&img, &cfg, &enq, job.flushers, job.compression != 0);
        if !c.is_empty() {
            for m in c {
                out.push(("Y.layout".to_string(), format!("after batch {bi}: {m}")));
            }
            return out;
        }
    }
    // Every key the disk tier claims to hold can be loaded (memory is emptied first).
    w.issue(op, &HOp::EvictAll);
    let keys: Vec<u64> = enq.iter().map(|e| e.0).collect();
    let before = w.hist.lock().unwrap().lookups.len();
    w.read_all(&keys, "final");
    check_reads(&w, before, &mut out, "after the last batch", res);
    if !out.is_empty() {
        return out;
    }
    // Reopen returns the same set.
    w.graceful_restart();
    let before = w.hist.lock().unwrap().lookups.len();
    w.read_all(&keys, "after-restart");
    check_reads(&w, before, &mut out, "after reopen", res);
    for p in w.hist.lock().unwrap().panics.iter() {
        out.push(("X.panic".into(), p.clone()));
    }
    if let Some(s) = &w.stalled {
        out.push(("X.stall".into(), s.clone()));
    }
    res.add("steps", w.steps as u64);
    res.add("entries", enq.len() as u64);
    out
}

fn check_reads(w: &World, from: usize, out: &mut Vec<(String, String)>, when: &str, res: &mut ShardResult) {
    let h = w.hist.lock().unwrap();
    for l in h.lookups[from..].iter() {
        match &l.res {
            LookupRes::Hit { key, ver: 1, source } if *key == l.key => {
                res.add(if *source == 2 { "hits_disk" } else { "hits_memory" }, 1);
            }
            other => out.push((
                "Y.unreadable".into(),
                format!("{when}: key {} (written and indexed) reads {:?}", l.key, other),
            )),
        }
    }
}

/// Parse every block with the independent reader and compare with what was enqueued.
fn check_image(img: &Image, cfg: &HybCfg, enq: &[(u64, usize)], flushers: usize, compressed: bool) -> Vec<String> {
    let mut out = vec![];
    let mut found: Vec<(u64, usize, usize, u64)> = vec![]; // (key, len, block, sequence)
    for (bi, part) in img.parts.iter().enumerate() {
        out.extend(dformat::check_block(part, cfg.blob_index_size, bi));
        for blob in dformat::scan_block(part, cfg.blob_index_size) {
            for s in blob.slots.iter() {
                found.push((s.hash, s.len as usize, bi, s.sequence));
            }
        }
    }
    // Under compression the stored length is not the serialized length: compare the keys only.
    let mut want: Vec<(u64, usize)> = enq.iter().map(|e| (e.0, if compressed { 0 } else { e.1 })).collect();
    want.sort();
    let mut got: Vec<(u64, usize)> = found.iter().map(|f| (f.0, if compressed { 0 } else { f.1 })).collect();
    got.sort();
    if want != got {
        let missing: Vec<_> = want.iter().filter(|x| !got.contains(x)).collect();
        let extra: Vec<_> = got.iter().filter(|x| !want.contains(x)).collect();
        out.push(format!(
            "scanning the device does not reconstruct exactly the entries written: missing (key, len) {missing:?}, unexpected {extra:?}"
        ));
    }
    // Enqueue order within each block (per flusher: keys are distributed by hash % flushers).
    for f in 0..flushers {
        let order: Vec<u64> = enq.iter().map(|e| e.0).filter(|k| (*k as usize) % flushers == f).collect();
        for bi in 0..img.parts.len() {
            let in_block: Vec<u64> = found.iter().filter(|x| x.2 == bi && (x.0 as usize) % flushers == f).map(|x| x.0).collect();
            let expected: Vec<u64> = order.iter().copied().filter(|k| in_block.contains(k)).collect();
            if in_block != expected {
                out.push(format!("block {bi}: entries of flusher {f} appear in order {in_block:?}, enqueued in order {expected:?}"));
            }
        }
    }
    out
}

fn compositions(n: usize, max_parts: usize) -> Vec<Vec<usize>> {
    // all ways to cut a sequence of n items into 1..=max_parts non-empty consecutive batches
    fn rec(n: usize, parts: usize, cur: &mut Vec<usize>, out: &mut Vec<Vec<usize>>) {
        if n == 0 {
            out.push(cur.clone());
            return;
        }
        if parts == 0 {
            return;
        }
        for first in 1..=n {
            cur.push(first);
            rec(n - first, parts - 1, cur, out);
            cur.pop();
        }
    }
    let mut out = vec![];
    rec(n, max_parts, &mut vec![], &mut out);
    out
}

fn jobs(tier: Tier) -> Vec<C07Job> {
    let mut v = vec![];
    // Regime A: 16 KiB blocks, 4 KiB index: at most 3 data pages per block.
    let page = 4096usize;
    let sizes = [100usize, page, page + 1, 2 * page, 3 * page];
    let max_entries = if tier == Tier::Quick { 4 } else { 6 };
    for n in 1..=max_entries {
        let mut idx = vec![0usize; n];
        loop {
            let seq: Vec<usize> = idx.iter().map(|i| sizes[*i]).collect();
            for cut in compositions(n, 4) {
                let mut batches = vec![];
                let mut pos = 0;
                for c in cut {
                    batches.push(seq[pos..pos + c].to_vec());
                    pos += c;
                }
                for flushers in [1usize, 2] {
                    if flushers == 2 && (n > 4 || tier == Tier::Quick && n > 3) {
                        continue;
                    }
                    v.push(C07Job {
                        regime: 'A',
                        block_size: 16 * 1024,
                        blocks: 8,
                        flushers,
                        batches: batches.clone(),
                        compression: 0,
                    });
                    if flushers == 1 && n <= 3 {
                        for compression in [1u8, 2] {
                            v.push(C07Job {
                                regime: 'A',
                                block_size: 16 * 1024,
                                blocks: 8,
                                flushers,
                                batches: batches.clone(),
                                compression,
                            });
                        }
                    }
                }
            }
            // odometer
            let mut p = n;
            let mut done = false;
            loop {
                if p == 0 {
                    done = true;
                    break;
                }
                p -= 1;
                idx[p] += 1;
                if idx[p] < sizes.len() {
                    break;
                }
                idx[p] = 0;
            }
            if done {
                break;
            }
        }
    }
    // Regime B: 1 MiB blocks: the 4 KiB blob index (170 slots) fills before the block does.
    let counts: Vec<usize> = if tier == Tier::Quick { vec![169, 170, 171, 341] } else { vec![169, 170, 171, 255, 256, 340, 341, 342] };
    for total in counts {
        for boundary in [170usize, 255, 340] {
            for d in [-1i64, 0, 1] {
                let cut = boundary as i64 + d;
                if cut <= 0 || cut as usize >= total {
                    continue;
                }
                let cut = cut as usize;
                v.push(C07Job {
                    regime: 'B',
                    block_size: 1024 * 1024,
                    blocks: 4,
                    flushers: 1,
                    batches: vec![vec![100; cut], vec![100; total - cut]],
                    compression: 0,
                });
            }
        }
        v.push(C07Job {
            regime: 'B',
            block_size: 1024 * 1024,
            blocks: 4,
            flushers: 1,
            batches: vec![vec![100; total]],
            compression: 0,
        });
    }
    // Regime C: 4 MiB blocks hold several full blobs: a non-first blob whose index fills exactly at (or
    // one entry around) a batch boundary, followed by more batches into the same block.
    let totals: Vec<usize> = if tier == Tier::Quick { vec![350] } else { vec![350, 520] };
    for total in totals {
        for c1 in [169usize, 170, 171] {
            for c2 in [339usize, 340, 341] {
                let mut batches = vec![vec![100; c1], vec![100; c2 - c1]];
                if total > 515 {
                    for c3 in [509usize, 510, 511] {
                        let mut b = batches.clone();
                        b.push(vec![100; c3 - c2]);
                        b.push(vec![100; total - c3]);
                        v.push(C07Job {
                            regime: 'C',
                            block_size: 4 * 1024 * 1024,
                            blocks: 2,
                            flushers: 1,
                            batches: b,
                            compression: 0,
                        });
                    }
                } else {
                    batches.push(vec![100; total - c2]);
                    v.push(C07Job {
                        regime: 'C',
                        block_size: 4 * 1024 * 1024,
                        blocks: 2,
                        flushers: 1,
                        batches,
                        compression: 0,
                    });
                }
            }
        }
    }
    // Regime D: wrap-around on 1 MiB blocks (254 one-page entries per block: a full blob of 170 and one of 84).
    // All four blocks are filled, then n more entries go into the first reused block, n around the blob
    // boundaries 170 and 254 — so that the new data ends exactly at, just before or just after the place where
    // a blob index of the block's previous generation still lies.
    let extra: Vec<usize> = if tier == Tier::Quick { vec![169, 170, 171, 254] } else { vec![1, 84, 85, 168, 169, 170, 171, 172, 253, 254, 255, 340] };
    for n in extra {
        v.push(C07Job {
            regime: 'D',
            block_size: 1024 * 1024,
            blocks: 4,
            flushers: 1,
            batches: vec![vec![100 + ENTRY_OVERHEAD; 4 * 254], vec![100 + ENTRY_OVERHEAD; n]],
            compression: 0,
        });
    }
    v
}

fn sig(clause: &str, job: &C07Job) -> String {
    format!("{clause}|regime{}|fl{}", job.regime, job.flushers)
}

impl Prop for C07Prop {
    fn id(&self) -> &'static str {
        "C07"
    }

    fn worker(&self, tier: Tier, shard: (usize, usize), deadline: Instant) -> ShardResult {
        let mut res = ShardResult::default();
        let js = jobs(tier);
        if shard.0 == 0 {
            res.add("jobs_total", js.len() as u64);
        }
        for (i, job) in js.iter().enumerate() {
            if i % shard.1 != shard.0 {
                continue;
            }
            if Instant::now() >= deadline {
                res.capped = true;
                break;
            }
            let c = run(job, &mut res);
            res.add("executions", 1);
            res.fp(vcore::fingerprint(&(job.block_size, job.flushers, job.compression, &job.batches)));
            if res.samples.len() < 2 {
                res.sample(json!({"engine": "V", "batches": job.batches, "regime": job.regime.to_string()}), 2);
            }
            for (clause, msg) in c {
                let signature = sig(&clause, job);
                if !res.violations.iter().any(|v| v.signature == signature) {
                    res.violations.push(Violation {
                        property: "C07".into(),
                        clause: clause.clone(),
                        signature,
                        message: format!("{msg}  [batches of entry lengths {:?}, block {} KiB, {} flusher(s)]", job.batches, job.block_size / 1024, job.flushers),
                        witness: json!({"engine": "V", "job": job}),
                    });
                }
            }
            if res.violations.len() >= 4 {
                break;
            }
        }
        cleanup_scratch();
        res
    }

    fn replay(&self, witness: &Value, verbose: bool) -> Vec<Violation> {
        let job: C07Job = serde_json::from_value(witness["job"].clone()).expect("witness job");
        if verbose {
            println!("replaying C07 {:?}", job);
        }
        let mut res = ShardResult::default();
        let mut vs = vec![];
        for (clause, msg) in run(&job, &mut res) {
            let signature = sig(&clause, &job);
            if !vs.iter().any(|v: &Violation| v.signature == signature) {
                vs.push(Violation {
                    property: "C07".into(),
                    clause,
                    signature,
                    message: msg,
                    witness: witness.clone(),
                });
            }
        }
        cleanup_scratch();
        vs
    }

    fn rule(&self) -> String {
        "Engine V (FIFO schedule, sim IO), batches controlled exactly by the harness. Regime A (16 KiB blocks, 4 KiB blob index, at most 3 data pages per block): every sequence of up to 4 (quick) / 6 (thorough) entries over serialized lengths {100 B, exactly 1 page, 1 page + 1 byte, exactly 2 pages, exactly 3 pages = the per-entry maximum} x every way of cutting it into <= 4 batches x 1-2 flushers (sequences of up to 3 entries also under zstd and lz4). Regime B (1 MiB blocks, so the 170-slot blob index fills before the block): entry counts around 170/255/340 with the batch cut at every position within +-1 of each boundary. Regime C (4 MiB blocks holding several full blobs): 350 (520) one-page entries cut into batches at every combination of positions within +-1 of the 170 / 340 (/ 510) index boundaries, so that non-first blobs fill exactly at, just before and just after a batch boundary. After every batch the partition files are parsed by the independent reader D: page alignment, containment, disjointness of entries and index pages, slot/header agreement, checksums, sequence monotonicity, and the scan must reconstruct exactly the (hash, length) multiset enqueued, in enqueue order per block. Then memory is emptied and every key is read back, and again after a graceful reopen. A case is one batch sequence.".into()
    }

    fn assumptions(&self) -> Vec<String> {
        vec![
            "shedding thresholds are far above the workload, so no entry may be dropped".into(),
            "images after reclaim and reuse are C09's business".into(),
        ]
    }

    fn bounds(&self, tier: Tier) -> Value {
        let js = jobs(tier);
        json!({"batch_sequences": js.len(), "regime_A": js.iter().filter(|j| j.regime == 'A').count(), "regime_B": js.iter().filter(|j| j.regime == 'B').count(), "regime_C": js.iter().filter(|j| j.regime == 'C').count()})
    }

    fn vacuity(&self, _tier: Tier, r: &ShardResult) -> Vec<String> {
        let mut v = vec![];
        if r.get("executions") == 0 || r.get("batches") == 0 {
            v.push("no batch ran".into());
        }
        if r.get("hits_disk") == 0 {
            v.push("no entry was ever read back from disk".into());
        }
        if r.fingerprints.len() < 2 {
            v.push("fewer than two distinct batch sequences".into());
        }
        v
    }

    fn wall_cap(&self, tier: Tier) -> Duration {
        match tier {
            Tier::Quick => Duration::from_secs(150),
            Tier::Thorough => Duration::from_secs(1200),
        }
    }
}
