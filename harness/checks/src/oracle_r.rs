//! Oracle R — per-key version register with misses (DESIGN.md §3).
//!
//! A lookup may return nothing, or a version `v` of its own key such that no other write, remove or
//! clear of that key is known to lie entirely between the completion of `insert(v)` and the start of
//! the lookup. Anything else is stale (superseded by a newer insert), removed, foreign or garbage.

use crate::{
    hyb::{History, HybCfg, LookupRes, WKind, WriteEv},
    memmodel::Complaint,
};

fn resp_or_inf(w: &WriteEv) -> u64 {
    w.resp.unwrap_or(u64::MAX)
}

pub struct ROpts {
    /// A remove is durable across restarts only with the tombstone log.
    pub removes_durable: bool,
}

pub fn check(hist: &History, cfg: &HybCfg) -> Vec<Complaint> {
    let mut out = vec![];
    for l in hist.lookups.iter() {
        if l.kind == "contains" {
            continue;
        }
        match &l.res {
            LookupRes::Miss | LookupRes::Err(_) => {}
            LookupRes::Pending | LookupRes::Dropped => {}
            LookupRes::Garbage(g) => out.push((
                "R.garbage",
                format!("{}(k{}) returned bytes that are no stored value: {g}", l.kind, l.key),
            )),
            LookupRes::Hit { key, ver, source } => {
                if *key != l.key {
                    out.push((
                        "R.foreign",
                        format!("{}(k{}) returned version {ver} of key {key}", l.kind, l.key),
                    ));
                    continue;
                }
                let Some(w) = hist.writes.iter().find(|w| {
                    w.key == *key && w.ver == *ver && matches!(w.kind, WKind::Insert { .. } | WKind::FetchInsert { .. })
                }) else {
                    out.push((
                        "R.unknown-version",
                        format!("{}(k{}) returned version {ver} that was never written", l.kind, l.key),
                    ));
                    continue;
                };
                // Is there an event on this key entirely after W and entirely before the lookup?
                for w2 in hist.writes.iter() {
                    let same_key = w2.key == *key || matches!(w2.kind, WKind::Clear);
                    if !same_key || std::ptr::eq(w, w2) {
                        continue;
                    }
                    let Some(r2) = w2.resp else { continue };
                    if !(resp_or_inf(w) < w2.invoke && r2 < l.invoke) {
                        continue;
                    }
                    // Attribution: the returned version had been handed to a get_or_fetch caller (as a fetch
                    // result or through an explicit insert that answered the waiting caller) who polled its
                    // future only after the superseding call; under write-on-insertion that caller then
                    // enqueued the older entry with the newest sequence.
                    let gof_requeue = cfg.woi
                        && hist.lookups.iter().any(|l0| {
                            l0.kind == "gof"
                                && l0.key == *key
                                && l0.invoke < w2.invoke
                                && l0.resp.map(|r| r > w2.invoke).unwrap_or(false)
                                && matches!(&l0.res, LookupRes::Hit { ver: v0, source: 0, .. } if v0 == ver)
                        });
                    // Attribution: clear() does not reset the flusher's open blob; an insert after the clear
                    // re-seals the blob index page with the slots of cleared entries, which recovery finds.
                    let clear_reseal = w2.kind == WKind::Clear
                        && l.epoch > w2.epoch
                        && hist.writes.iter().any(|w3| {
                            w3.epoch == w2.epoch && w3.invoke > w2.invoke && matches!(w3.kind, WKind::Insert { .. } | WKind::FetchInsert { .. })
                        });
                    // Attribution (thread granularity): a lookup that overlapped the superseding insert loaded the
                    // older version from disk; its fetch task put it (back) into memory between the two steps of
                    // that insert (memory insert, then disk enqueue), after the new value had been evicted again.
                    let load_during_insert = matches!(w2.kind, WKind::Insert { .. } | WKind::FetchInsert { .. })
                        && w2.invoke < r2
                        && hist.lookups.iter().any(|l0| {
                            l0.key == *key
                                && !std::ptr::eq(l0, l)
                                && l0.invoke < r2
                                && l0.resp.map(|r| r > w2.invoke).unwrap_or(true)
                                // served asynchronously: from the device, or from the write queue
                                && matches!(&l0.res, LookupRes::Hit { ver: v0, source, .. } if v0 == ver && (*source == 2 || l0.answered.map(|a| a > l0.invoke).unwrap_or(true)))
                        });
                    // Attribution (thread granularity): the newer version had been inserted, a remove(k) was in
                    // progress (its steps are: memory remove, write-queue remove, disk tombstone) and a lookup that
                    // overlapped the remove found the key gone from memory but the *older* disk copy not yet
                    // tombstoned: it returned that copy and cached it.
                    let load_during_remove = matches!(w2.kind, WKind::Insert { .. } | WKind::FetchInsert { .. })
                        && hist.writes.iter().any(|w3| {
                            w3.kind == WKind::Remove
                                && w3.key == *key
                                && w3.invoke < w3.resp.unwrap_or(u64::MAX)
                                && hist.lookups.iter().any(|l0| {
                                    l0.key == *key
                                        && l0.invoke < w3.resp.unwrap_or(u64::MAX)
                                        && l0.resp.map(|r| r > w3.invoke).unwrap_or(true)
                                        && matches!(&l0.res, LookupRes::Hit { ver: v0, source, .. } if v0 == ver && (*source == 2 || l0.answered.map(|a| a > l0.invoke).unwrap_or(true)))
                                })
                        });
                    // Attribution (thread granularity, write-on-eviction): the newer version existed in memory only,
                    // was unlinked by a capacity eviction and reached the write queue only after a lookup of the key
                    // had begun: that lookup found the key in neither memory nor the write queue, took the older copy
                    // from disk and cached it.
                    let stale_eviction_in_transit = matches!(w2.kind, WKind::Insert { .. } | WKind::FetchInsert { .. })
                        && !cfg.woi
                        && hist.leaves.iter().any(|e| e.key == *key && e.ver == w2.ver && e.reason == 0)
                        && {
                            let hash = crate::memdrive::VHash { table: std::sync::Arc::new(cfg.hash_table.clone()) }.hash_of(*key);
                            hist.lookups.iter().any(|l0| {
                                l0.key == *key
                                    && matches!(&l0.res, LookupRes::Hit { ver: v0, source, .. } if v0 == ver && (*source == 2 || l0.answered.map(|a| a > l0.invoke).unwrap_or(true)))
                                    && hist.admissions.iter().any(|(h, t)| *h == hash && *t >= l0.invoke)
                            })
                        };
                    let tier = match source {
                        0 => "origin",
                        1 => "memory",
                        2 => "disk",
                        _ => "?",
                    };
                    match w2.kind {
                        WKind::Insert { loc, storage_writer, sz } => {
                            // A write that the disk tier may legally never see does not supersede a disk copy
                            // in the sense of the property only if its advice is in-memory-only *and* the key
                            // alternates placement; generators never alternate, so every insert supersedes.
                            let _ = (loc, storage_writer);
                            let oversize = cfg.unwritable(sz);
                            // An update that cannot be written to disk (it exceeds the per-entry limit)
                            // invalidates the older on-disk copy exactly like a delete does. Like a delete
                            // it is durable across a restart only with the tombstone log: the crate
                            // documents that an updatable cache without the log (and with recovery on) may
                            // show phantom entries after reopen (`BlockEngineConfig::with_tombstone_log`).
                            // The same holds if *any* invalidation (remove, unwritable update) of the key
                            // followed the returned version: nothing newer than it ever reached the device.
                            let unwritable_later = hist.writes.iter().any(|w3| {
                                w3.key == *key
                                    && (w3.kind == WKind::Remove
                                        || matches!(w3.kind, WKind::Insert { sz, .. } if cfg.unwritable(sz)))
                                    && resp_or_inf(w) < w3.invoke
                                    && w3.resp.map(|r| r < l.invoke).unwrap_or(false)
                                    && l.epoch > w3.epoch
                            });
                            if (oversize || unwritable_later) && l.epoch > w2.epoch && !cfg.tombstone {
                                continue;
                            }
                            out.push((
                                if gof_requeue {
                                    "R.stale-gof-requeue"
                                } else if load_during_insert {
                                    "R.stale-load-during-insert"
                                } else if load_during_remove {
                                    "R.stale-load-during-remove"
                                } else if stale_eviction_in_transit {
                                    "R.stale-eviction-in-transit"
                                } else {
                                    "R.stale"
                                },
                                format!(
                                    "{}(k{}) returned v{ver} (served by {tier}) although v{} was inserted at t{}..t{} before the lookup started at t{}{}",
                                    l.kind,
                                    l.key,
                                    w2.ver,
                                    w2.invoke,
                                    r2,
                                    l.invoke,
                                    if oversize { " [newer value cannot be written: over the per-entry disk limit or refused by admission]" } else { "" }
                                ),
                            ));
                        }
                        WKind::FetchInsert { .. } => out.push((
                            if gof_requeue { "R.stale-gof-requeue" } else { "R.stale" },
                            format!(
                                "{}(k{}) returned v{ver} (served by {tier}) although a fetch inserted v{} at t{}..t{} before the lookup started at t{}",
                                l.kind, l.key, w2.ver, w2.invoke, r2, l.invoke
                            ),
                        )),
                        WKind::Remove | WKind::Clear => {
                            // Across a restart a remove is only durable with the tombstone log.
                            if w2.kind == WKind::Remove && l.epoch > w2.epoch && !cfg.tombstone {
                                continue;
                            }
                            // Attribution: was a lookup of the same key in flight while the remove ran, and did
                            // it come back with this very version? Then the removed value was re-populated by
                            // that lookup's disk load (remove does not cancel in-flight loads).
                            // (Engine V: calls are atomic, so "in flight while the remove ran" = started before and
                            // answered after it; Engine TH: the lookup overlaps the remove call.)
                            let inflight_load = w2.kind == WKind::Remove
                                && hist.lookups.iter().any(|l0| {
                                    l0.key == *key
                                        && !std::ptr::eq(l0, l)
                                        && l0.invoke < r2.max(w2.invoke + 1)
                                        && l0.resp.map(|r| r > w2.invoke).unwrap_or(true)
                                        && matches!(&l0.res, LookupRes::Hit { ver: v0, source, .. } if v0 == ver && (*source == 2 || (w2.invoke < r2 && l0.answered.map(|a| a > l0.invoke).unwrap_or(true))))
                                });
                            // Same attribution for clear(): a lookup of the key overlapped the clear() call and
                            // came back with this version (from the write queue or an in-flight load), which
                            // re-populated the memory tier with a value that clear() was discarding.
                            let lookup_during_clear = w2.kind == WKind::Clear
                                && hist.lookups.iter().any(|l0| {
                                    l0.key == *key
                                        && l0.invoke < r2
                                        && l0.resp.map(|r| r > w2.invoke).unwrap_or(true)
                                        && matches!(&l0.res, LookupRes::Hit { ver: v0, .. } if v0 == ver)
                                        && !std::ptr::eq(l0, l)
                                });
                            // Attribution (thread granularity, write-on-eviction): the returned version left memory by
                            // capacity eviction (so the remove did not find it there) and was offered to the disk tier
                            // only after the remove had begun: the remove ran in the window in which the evicted entry
                            // was in neither tier, and the entry was written after the tombstone.
                            let hash = crate::memdrive::VHash { table: std::sync::Arc::new(cfg.hash_table.clone()) }.hash_of(*key);
                            let eviction_in_transit = w2.kind == WKind::Remove
                                && !cfg.woi
                                && hist.leaves.iter().any(|e| e.key == *key && e.ver == *ver && e.reason == 0)
                                && !hist.leaves.iter().any(|e| e.key == *key && e.ver == *ver && e.reason == 2)
                                && hist.admissions.iter().any(|(h, t)| *h == hash && *t >= w2.invoke);
                            // A newer insert after the remove would have been reported as stale above.
                            out.push((
                                if inflight_load {
                                    "R.removed-inflight-load"
                                } else if eviction_in_transit {
                                    "R.removed-eviction-in-transit"
                                } else if lookup_during_clear {
                                    "R.cleared-lookup-during-clear"
                                } else if clear_reseal {
                                    "R.cleared-resealed-after-restart"
                                } else if gof_requeue {
                                    "R.removed-gof-requeue"
                                } else {
                                    "R.removed"
                                },
                                format!(
                                    "{}(k{}) returned v{ver} (served by {tier}) although the key was {} at t{}..t{} before the lookup started at t{}",
                                    l.kind,
                                    l.key,
                                    if w2.kind == WKind::Clear { "cleared" } else { "removed" },
                                    w2.invoke,
                                    r2,
                                    l.invoke
                                ),
                            ));
                        }
                    }
                    break;
                }
            }
        }
    }
    out
}
