//! Engine S driver: applies one operation at a time to the real `foyer_memory::Cache` and to the
//! reference ledger / policy in lock-step and returns the oracle complaints of that step.

use std::{
    collections::BTreeMap,
    hash::{BuildHasher, Hash, Hasher},
    panic::{catch_unwind, AssertUnwindSafe},
    sync::{
        atomic::{AtomicBool, AtomicUsize, Ordering},
        Arc, Mutex, RwLock, Weak,
    },
};

use foyer_common::{
    event::{Event, EventListener},
    properties::Hint,
};
use foyer_memory::{
    Cache, CacheBuilder, CacheEntry, CacheProperties, EvictionConfig, FifoConfig, LfuConfig, LruConfig, Piece, Pipe,
    S3FifoConfig, SieveConfig,
};
use serde_json::{json, Value};

use crate::memmodel::*;

// ---------------------------------------------------------------------------------------------
// Key / value types with observable destructors, and a table-driven hasher
// ---------------------------------------------------------------------------------------------

#[derive(Debug, Clone, Copy, PartialEq, Eq)]
pub enum Callback {
    Listener,
    Weighter,
    Filter,
    KeyDrop,
    ValueDrop,
}

type HookFn = dyn Fn(Callback, u64) + Send + Sync;

static HOOK_ON: AtomicBool = AtomicBool::new(false);
static HOOK: RwLock<Option<Arc<HookFn>>> = RwLock::new(None);

pub fn set_hook(h: Option<Arc<HookFn>>) {
    HOOK_ON.store(h.is_some(), Ordering::SeqCst);
    *HOOK.write().unwrap() = h;
}

#[inline]
fn hook(cb: Callback, v: u64) {
    if HOOK_ON.load(Ordering::Relaxed) {
        let h = HOOK.read().unwrap().clone();
        if let Some(h) = h {
            h(cb, v);
        }
    }
}

#[derive(Debug, PartialEq, Eq)]
pub struct DK(pub u64);

impl Clone for DK {
    fn clone(&self) -> Self {
        DK(self.0)
    }
}

impl Hash for DK {
    fn hash<H: Hasher>(&self, state: &mut H) {
        state.write_u64(self.0);
    }
}

impl Drop for DK {
    fn drop(&mut self) {
        hook(Callback::KeyDrop, self.0);
    }
}

#[derive(Debug, PartialEq, Eq)]
pub struct DV(pub u64);

impl Drop for DV {
    fn drop(&mut self) {
        hook(Callback::ValueDrop, self.0);
    }
}

/// `hash(k) = table[k]` for small keys, `k` otherwise. An empty table is the identity
/// (foyer's own `ModHasher` behaviour for `u64`).
#[derive(Debug, Clone, Default)]
pub struct VHash {
    pub table: Arc<Vec<u64>>,
}

pub struct VHasher {
    table: Arc<Vec<u64>>,
    state: u64,
}

impl Hasher for VHasher {
    fn finish(&self) -> u64 {
        self.state
    }
    fn write(&mut self, bytes: &[u8]) {
        for b in bytes {
            self.state = (self.state << 8).wrapping_add(*b as u64);
        }
    }
    fn write_u64(&mut self, i: u64) {
        self.state = match self.table.get(i as usize) {
            Some(h) => *h,
            None => i,
        };
    }
}

impl BuildHasher for VHash {
    type Hasher = VHasher;
    fn build_hasher(&self) -> VHasher {
        VHasher {
            table: self.table.clone(),
            state: 0,
        }
    }
}

impl VHash {
    pub fn hash_of(&self, k: u64) -> u64 {
        match self.table.get(k as usize) {
            Some(h) => *h,
            None => k,
        }
    }
}

pub type MC = Cache<DK, DV, VHash, CacheProperties>;
pub type ME = CacheEntry<DK, DV, VHash, CacheProperties>;

pub fn enc_value(id: Id, weight: usize, reject: bool) -> u64 {
    assert!(weight < 32);
    (id << 8) | (weight as u64) | if reject { 0x20 } else { 0 }
}
pub fn value_id(v: u64) -> Id {
    v >> 8
}
pub fn value_weight(v: u64) -> usize {
    (v & 0x1f) as usize
}
pub fn value_reject(v: u64) -> bool {
    v & 0x20 != 0
}

// ---------------------------------------------------------------------------------------------
// Recorders
// ---------------------------------------------------------------------------------------------

#[derive(Debug, Clone, Copy, PartialEq, Eq)]
pub struct Ev {
    pub reason: Reason,
    pub key: u64,
    pub id: Id,
}

#[derive(Default)]
pub struct Recorder {
    pub events: Mutex<Vec<Ev>>,
    /// (key, id, via_flush)
    pub piped: Mutex<Vec<(u64, Id, bool)>>,
    /// Everything ever offered to the pipe (never drained): the differential oracle for caches without a
    /// listener compares it with the log of the same sequence on a cache with one.
    pub pipe_log: Mutex<Vec<(u64, Id, bool)>>,
    pub flush_calls: AtomicUsize,
    /// While set, `Pipe::flush` returns a future that never completes (a disk tier that is slow to accept).
    pub slow_flush: std::sync::atomic::AtomicBool,
}

struct Listener {
    rec: Arc<Recorder>,
}

impl EventListener for Listener {
    type Key = DK;
    type Value = DV;

    fn on_leave(&self, reason: Event, key: &DK, value: &DV) {
        let reason = match reason {
            Event::Evict => Reason::Evict,
            Event::Replace => Reason::Replace,
            Event::Remove => Reason::Remove,
            Event::Clear => Reason::Clear,
        };
        self.rec.events.lock().unwrap().push(Ev {
            reason,
            key: key.0,
            id: value_id(value.0),
        });
        hook(Callback::Listener, value.0);
    }
}

struct RecPipe {
    rec: Arc<Recorder>,
}

impl std::fmt::Debug for RecPipe {
    fn fmt(&self, f: &mut std::fmt::Formatter<'_>) -> std::fmt::Result {
        f.write_str("RecPipe")
    }
}

impl Pipe for RecPipe {
    type Key = DK;
    type Value = DV;
    type Properties = CacheProperties;

    fn is_enabled(&self) -> bool {
        true
    }

    fn send(&self, piece: Piece<DK, DV, CacheProperties>) {
        let item = (piece.key().0, value_id(piece.value().0), false);
        self.rec.pipe_log.lock().unwrap().push(item);
        self.rec.piped.lock().unwrap().push(item);
    }

    fn flush(
        &self,
        pieces: Vec<Piece<DK, DV, CacheProperties>>,
    ) -> std::pin::Pin<Box<dyn std::future::Future<Output = ()> + Send>> {
        self.rec.flush_calls.fetch_add(1, Ordering::SeqCst);
        let mut g = self.rec.piped.lock().unwrap();
        for p in pieces.iter() {
            g.push((p.key().0, value_id(p.value().0), true));
            self.rec.pipe_log.lock().unwrap().push((p.key().0, value_id(p.value().0), true));
        }
        drop(g);
        drop(pieces);
        if self.rec.slow_flush.load(Ordering::SeqCst) {
            return Box::pin(std::future::pending());
        }
        Box::pin(async {})
    }
}

// ---------------------------------------------------------------------------------------------
// Configuration and operations
// ---------------------------------------------------------------------------------------------

#[derive(Debug, Clone, PartialEq, serde::Serialize, serde::Deserialize)]
pub struct MemCfg {
    pub algo: Algo,
    pub capacity: usize,
    pub shards: usize,
    /// Hash table for small keys (empty: identity).
    pub hash_table: Vec<u64>,
    pub pipe: bool,
    /// Predict victims with the reference algorithm (C14) in addition to following them.
    pub predict: bool,
    /// Build the cache without an event listener (some code paths differ when none is configured).
    #[serde(default)]
    pub no_listener: bool,
}

impl MemCfg {
    pub fn to_json(&self) -> Value {
        let mut v = serde_json::to_value(self).unwrap();
        v["algo_name"] = json!(self.algo.name());
        v
    }
}

#[derive(Debug, Clone, Copy, PartialEq, Eq, Hash)]
pub enum Op {
    Ins { k: u64, w: usize, low: bool, reject: bool, hold: bool },
    Get { k: u64, hold: bool },
    Touch { k: u64 },
    Contains { k: u64 },
    Rm { k: u64, hold: bool },
    Clear,
    Resize { c: usize },
    EvictAll,
    Flush,
    /// `flush()` against a pipe that does not complete: the future is polled once and dropped (a caller
    /// that gives up, e.g. a timeout around `close()`).
    FlushCancel,
    DropH { slot: usize },
    CloneH { slot: usize },
    /// get_or_fetch whose origin returns a fresh value at once; the runtime is driven to quiescence.
    /// Behaves like `Get` on a resident key and like `Ins` (normal hint, admitted) otherwise.
    Fetch { k: u64, w: usize, hold: bool },
    /// Like `Fetch`, but a second `get_or_fetch` caller joins the fetch while it is in flight and gives up
    /// (its future is polled once and dropped) before the fetch completes.
    FetchWaiterGone { k: u64, w: usize, hold: bool },
}

impl Op {
    pub fn text(&self) -> String {
        match *self {
            Op::Ins { k, w, low, reject, hold } => format!(
                "ins(k{k},w{w}{}{}{})",
                if low { ",low" } else { "" },
                if reject { ",reject" } else { "" },
                if hold { ",hold" } else { "" }
            ),
            Op::Get { k, hold } => format!("get(k{k}{})", if hold { ",hold" } else { "" }),
            Op::Touch { k } => format!("touch(k{k})"),
            Op::Contains { k } => format!("contains(k{k})"),
            Op::Rm { k, hold } => format!("rm(k{k}{})", if hold { ",hold" } else { "" }),
            Op::Clear => "clear".into(),
            Op::Resize { c } => format!("resize({c})"),
            Op::EvictAll => "evict_all".into(),
            Op::Flush => "flush".into(),
            Op::FlushCancel => "flush_cancel".into(),
            Op::DropH { slot } => format!("drop(h{slot})"),
            Op::CloneH { slot } => format!("clone(h{slot})"),
            Op::Fetch { k, w, hold } => format!("fetch(k{k},w{w}{})", if hold { ",hold" } else { "" }),
            Op::FetchWaiterGone { k, w, hold } => format!("fetch_waiter_gone(k{k},w{w}{})", if hold { ",hold" } else { "" }),
        }
    }

    pub fn parse(s: &str) -> Option<Op> {
        let s = s.trim();
        let (name, args) = match s.find('(') {
            Some(p) => (&s[..p], s[p + 1..].trim_end_matches(')')),
            None => (s, ""),
        };
        let parts: Vec<&str> = args.split(',').map(|x| x.trim()).filter(|x| !x.is_empty()).collect();
        let num = |p: &str| -> Option<u64> { p.trim_start_matches(|c: char| c.is_alphabetic()).parse().ok() };
        let has = |f: &str| parts.iter().any(|p| *p == f);
        Some(match name {
            "ins" => Op::Ins {
                k: num(parts.first()?)?,
                w: num(parts.get(1)?)? as usize,
                low: has("low"),
                reject: has("reject"),
                hold: has("hold"),
            },
            "get" => Op::Get {
                k: num(parts.first()?)?,
                hold: has("hold"),
            },
            "touch" => Op::Touch { k: num(parts.first()?)? },
            "contains" => Op::Contains { k: num(parts.first()?)? },
            "rm" => Op::Rm {
                k: num(parts.first()?)?,
                hold: has("hold"),
            },
            "clear" => Op::Clear,
            "resize" => Op::Resize {
                c: num(parts.first()?)? as usize,
            },
            "evict_all" => Op::EvictAll,
            "flush" => Op::Flush,
            "flush_cancel" => Op::FlushCancel,
            "drop" => Op::DropH {
                slot: num(parts.first()?)? as usize,
            },
            "clone" => Op::CloneH {
                slot: num(parts.first()?)? as usize,
            },
            "fetch" => Op::Fetch {
                k: num(parts.first()?)?,
                w: num(parts.get(1)?)? as usize,
                hold: has("hold"),
            },
            "fetch_waiter_gone" => Op::FetchWaiterGone {
                k: num(parts.first()?)?,
                w: num(parts.get(1)?)? as usize,
                hold: has("hold"),
            },
            _ => return None,
        })
    }
}

pub fn seq_text(ops: &[Op]) -> String {
    ops.iter().map(|o| o.text()).collect::<Vec<_>>().join("; ")
}

// ---------------------------------------------------------------------------------------------
// Driver
// ---------------------------------------------------------------------------------------------

/// `RawCache::resize` runs its per-shard jobs through foyer-memory's `verif` seam: inline on the calling
/// thread for the single-threaded engines (one legal schedule of the helper threads, which are joined before
/// `resize` returns; thread creation costs ~0.5 ms per shard here and would otherwise dominate).
pub fn install_inline_spawner() {
    foyer_memory::verif::set_spawner(Some(std::sync::Arc::new(|job: foyer_memory::verif::Job| {
        job();
        Box::new(|| {}) as foyer_memory::verif::Joiner
    })));
}

pub struct Driver {
    pub cfg: MemCfg,
    pub cache: Option<MC>,
    pub hasher: VHash,
    pub rec: Arc<Recorder>,
    pub ledger: Ledger,
    pub policies: Vec<Box<dyn Policy>>,
    pub policy_live: bool,
    pub slots: Vec<Option<(ME, Id)>>,
    pub next_id: Id,
    pub universe: Vec<u64>,
    /// Counters for vacuity guards.
    pub n_evictions: u64,
    pub n_hits: u64,
    pub n_events: u64,
    /// The current Ins / Get step is performed through `get_or_fetch`.
    via_fetch: bool,
    waiter_gives_up: bool,
}

/// `get_or_fetch` with an origin that resolves at once; drives the runtime until the entry is there.
fn fetch_now(cache: &MC, k: u64, v: u64, waiter_gives_up: bool) -> ME {
    use std::future::Future;
    let mut fut = Box::pin(cache.get_or_fetch(&DK(k), move || async move { Ok::<DV, anyhow::Error>(DV(v)) }));
    let waker = tokio::sim::noop_waker();
    let mut cx = std::task::Context::from_waker(&waker);
    if waiter_gives_up {
        // joins the in-flight fetch (the fetch task has not run yet), is polled once, then dropped
        let mut w = Box::pin(cache.get_or_fetch(&DK(k), move || async move { Ok::<DV, anyhow::Error>(DV(v)) }));
        let _ = w.as_mut().poll(&mut cx);
        drop(w);
    }
    for _ in 0..4 {
        if let std::task::Poll::Ready(r) = fut.as_mut().poll(&mut cx) {
            return r.expect("get_or_fetch with an infallible origin failed");
        }
        tokio::sim::run_until_stalled(10_000);
    }
    panic!("get_or_fetch did not resolve although its origin is ready and the runtime is idle");
}

fn eviction_config(a: &Algo) -> EvictionConfig {
    match *a {
        Algo::Fifo => FifoConfig {}.into(),
        Algo::Lru { ratio } => LruConfig {
            high_priority_pool_ratio: ratio,
        }
        .into(),
        Algo::Sieve => SieveConfig {}.into(),
        Algo::S3Fifo { small, ghost, threshold } => S3FifoConfig {
            small_queue_capacity_ratio: small,
            ghost_queue_capacity_ratio: ghost,
            small_to_main_freq_threshold: threshold,
        }
        .into(),
        Algo::Lfu { window, protected } => LfuConfig {
            window_capacity_ratio: window,
            protected_capacity_ratio: protected,
            cmsketch_eps: 0.001,
            cmsketch_confidence: 0.9,
        }
        .into(),
        Algo::LfuSketch { window, protected, eps } => LfuConfig {
            window_capacity_ratio: window,
            protected_capacity_ratio: protected,
            cmsketch_eps: eps,
            cmsketch_confidence: 0.9,
        }
        .into(),
    }
}

pub fn build_cache(cfg: &MemCfg, rec: &Arc<Recorder>, hasher: &VHash) -> MC {
    let b = CacheBuilder::new(cfg.capacity)
        .with_shards(cfg.shards)
        .with_eviction_config(eviction_config(&cfg.algo))
        .with_hash_builder(hasher.clone())
        .with_weighter(|k: &DK, v: &DV| {
            hook(Callback::Weighter, k.0);
            value_weight(v.0)
        })
        .with_filter(|k: &DK, v: &DV| {
            hook(Callback::Filter, k.0);
            !value_reject(v.0)
        });
    let b = if cfg.no_listener {
        b
    } else {
        b.with_event_listener(Arc::new(Listener { rec: rec.clone() }))
    };
    let cache: MC = b.build();
    if cfg.pipe {
        cache.with_pipe(Arc::new(RecPipe { rec: rec.clone() }))
    } else {
        cache
    }
}

fn guard<R>(what: &str, out: &mut Vec<Complaint>, f: impl FnOnce() -> R) -> Option<R> {
    match catch_unwind(AssertUnwindSafe(f)) {
        Ok(r) => Some(r),
        Err(p) => {
            let msg = tokio::sim::panic_message(&p);
            let clause = if msg.contains("self-deadlock") { "K.self-deadlock" } else { "X.panic" };
            out.push((clause, format!("{what} did not complete: {msg}")));
            None
        }
    }
}

impl Driver {
    pub fn new(cfg: MemCfg, universe: Vec<u64>) -> Self {
        tokio::sim::reset();
        let rec = Arc::new(Recorder::default());
        let hasher = VHash {
            table: Arc::new(cfg.hash_table.clone()),
        };
        let cache = build_cache(&cfg, &rec, &hasher);
        let ledger = Ledger::new(cfg.capacity, cfg.shards, cfg.algo.is_lru());
        let policies = (0..cfg.shards)
            .map(|i| cfg.algo.policy(shard_capacity_for(cfg.capacity, cfg.shards, i)))
            .collect();
        Self {
            policy_live: cfg.predict,
            cfg,
            cache: Some(cache),
            hasher,
            rec,
            ledger,
            policies,
            slots: vec![],
            next_id: 1,
            universe,
            n_evictions: 0,
            n_hits: 0,
            n_events: 0,
            via_fetch: false,
            waiter_gives_up: false,
        }
    }

    fn shard_of(&self, k: u64) -> usize {
        (self.hasher.hash_of(k) as usize) % self.cfg.shards
    }

    fn take_events(&self) -> Vec<Ev> {
        std::mem::take(&mut *self.rec.events.lock().unwrap())
    }

    fn take_piped(&self) -> Vec<(u64, Id, bool)> {
        std::mem::take(&mut *self.rec.piped.lock().unwrap())
    }

    pub fn held_slots(&self) -> Vec<usize> {
        self.slots
            .iter()
            .enumerate()
            .filter(|(_, s)| s.is_some())
            .map(|(i, _)| i)
            .collect()
    }

    /// Is `op` applicable in the current state (slot operations need an occupied slot)?
    pub fn applicable(&self, op: &Op) -> bool {
        match op {
            Op::DropH { slot } | Op::CloneH { slot } => self.slots.get(*slot).map(|s| s.is_some()).unwrap_or(false),
            _ => true,
        }
    }

    fn store(&mut self, e: ME, id: Id) {
        self.slots.push(Some((e, id)));
    }

    /// Account for leave notifications: exactly one per admitted entry, never while findable.
    fn note_events(&mut self, evs: &[Ev], out: &mut Vec<Complaint>) {
        for e in evs {
            self.n_events += 1;
            let Some(rec) = self.ledger.recs.get_mut(&e.id) else {
                out.push(("L.unknown", format!("leave notification {:?} for an entry that was never inserted", e)));
                continue;
            };
            if rec.phantom {
                // Disk-only entries were never findable; their listener notifications are not constrained.
                continue;
            }
            if rec.info.key != e.key {
                out.push((
                    "L.wrong-key",
                    format!("leave notification for record {} carries key {} instead of {}", e.id, e.key, rec.info.key),
                ));
            }
            rec.left.push(e.reason);
            if rec.left.len() > 1 {
                out.push((
                    "L.twice",
                    format!("record {} (key {}) left more than once: {:?}", e.id, e.key, rec.left),
                ));
            }
            if rec.indexed {
                out.push((
                    "L.leave-while-findable",
                    format!("record {} (key {}) notified as {:?} but a lookup still finds it", e.id, e.key, e.reason),
                ));
            }
        }
    }

    /// Pipe offers: every capacity-evicted entry exactly once, nothing else; phantom entries at last drop.
    fn note_piped(&mut self, piped: &[(u64, Id, bool)], expect: &[Id], what: &str, out: &mut Vec<Complaint>) {
        if !self.cfg.pipe {
            return;
        }
        let got: Vec<Id> = piped.iter().map(|p| p.1).collect();
        for (_, id, _) in piped {
            if let Some(r) = self.ledger.recs.get_mut(id) {
                r.piped += 1;
            }
        }
        if got != expect {
            let clause = if got.len() < expect.len() || expect.iter().any(|e| !got.contains(e)) {
                "L.pipe-missing"
            } else {
                "L.pipe-spurious"
            };
            out.push((
                clause,
                format!("{what}: entries offered to the disk tier {got:?}, expected exactly the capacity-evicted {expect:?}"),
            ));
        }
    }

    fn predict_evictions(&mut self, shard: usize, target: usize, observed: &[Id], out: &mut Vec<Complaint>) {
        if !self.policy_live {
            return;
        }
        let mut usage = self.ledger.shards[shard].usage;
        let mut predicted = vec![];
        while usage > target {
            match self.policies[shard].pop() {
                Some(v) => {
                    usage -= self.ledger.recs[&v].info.weight;
                    predicted.push(v);
                }
                None => break,
            }
        }
        if predicted != observed {
            self.policy_live = false;
            let show = |v: &[Id]| -> Vec<String> {
                v.iter()
                    .map(|id| format!("k{}#{}", self.ledger.recs.get(id).map(|r| r.info.key).unwrap_or(0), id))
                    .collect()
            };
            out.push((
                "A.victim",
                format!(
                    "{} evicted {:?} but the documented algorithm evicts {:?} (shard {shard})",
                    self.cfg.algo.name(),
                    show(observed),
                    show(&predicted)
                ),
            ));
        }
    }

    /// A handle is dropped: reference bookkeeping, LRU release, phantom hand-off.
    fn release_ref(&mut self, id: Id, out: &mut Vec<Complaint>) {
        let rec = self.ledger.recs.get_mut(&id).expect("release of unknown record");
        assert!(rec.refs > 0);
        rec.refs -= 1;
        if rec.refs == 0 {
            rec.pinned_by_lookup = false;
            let (shard, indexed, phantom) = (rec.shard, rec.indexed, rec.phantom);
            if phantom {
                let evs = self.take_events();
                self.note_events(&evs, out);
                let piped = self.take_piped();
                self.note_piped(&piped, &[id], "last handle of a disk-only entry dropped", out);
            } else if self.policy_live {
                self.policies[shard].release(id, indexed);
            }
        }
    }

    fn drop_entry(&mut self, e: ME, id: Id, out: &mut Vec<Complaint>) {
        guard("drop of a handle", out, move || drop(e));
        self.release_ref(id, out);
        // Any notification produced by a drop of a regular entry is spurious.
        let evs = self.take_events();
        if !evs.is_empty() {
            self.note_events(&evs, out);
            let non_phantom: Vec<&Ev> = evs
                .iter()
                .filter(|e| self.ledger.recs.get(&e.id).map(|r| !r.phantom).unwrap_or(true))
                .collect();
            if !non_phantom.is_empty() {
                out.push(("L.spurious-leave", format!("dropping a handle produced notifications {non_phantom:?}")));
            }
        }
        let piped = self.take_piped();
        if !piped.is_empty() {
            self.note_piped(&piped, &[], "drop of a handle", out);
        }
    }

    /// Apply one operation to the implementation and the reference; returns the complaints.
    pub fn step(&mut self, op: &Op) -> Vec<Complaint> {
        let mut out: Vec<Complaint> = vec![];
        let _ = self.take_events();
        let _ = self.take_piped();
        let cache = self.cache.as_ref().expect("cache dropped").clone();
        match *op {
            Op::Ins { k, w, low, reject, hold } => {
                let id = self.next_id;
                self.next_id += 1;
                let v = enc_value(id, w, reject);
                let shard = self.shard_of(k);
                let props = CacheProperties::default().with_hint(if low { Hint::Low } else { Hint::Normal });
                let via_fetch = self.via_fetch;
                let waiter_gives_up = self.waiter_gives_up;
                let e = guard(if via_fetch { "get_or_fetch" } else { "insert" }, &mut out, || {
                    if via_fetch {
                        fetch_now(&cache, k, v, waiter_gives_up)
                    } else {
                        cache.insert_with_properties(DK(k), DV(v), props)
                    }
                });
                let Some(e) = e else { return out };
                let evs = self.take_events();
                let piped = self.take_piped();
                let info = RecInfo {
                    id,
                    key: k,
                    hash: self.hasher.hash_of(k),
                    weight: w,
                    low,
                };
                if reject {
                    // Disk-only entry: replaces a resident copy, is never findable itself.
                    let mut expect = vec![];
                    if let Some(old) = self.ledger.find(shard, k) {
                        let ow = self.ledger.recs[&old].info.weight;
                        let s = &mut self.ledger.shards[shard];
                        s.index.remove(&k);
                        s.usage -= ow;
                        s.entries -= 1;
                        self.ledger.recs.get_mut(&old).unwrap().indexed = false;
                        if self.policy_live {
                            self.policies[shard].remove(old);
                        }
                        expect.push(Ev {
                            reason: Reason::Replace,
                            key: k,
                            id: old,
                        });
                    }
                    self.ledger.recs.insert(
                        id,
                        LRec {
                            info,
                            shard,
                            phantom: true,
                            indexed: false,
                            refs: 1,
                            pinned_by_lookup: false,
                            left: vec![],
                            piped: 0,
                        },
                    );
                    let got: Vec<Ev> = evs.iter().copied().filter(|e| e.id != id).collect();
                    self.note_events(&got, &mut out);
                    if got != expect {
                        out.push(("L.events", format!("disk-only insert of k{k}: notifications {got:?}, expected {expect:?}")));
                    }
                    self.note_piped(&piped, &[], "disk-only insert", &mut out);
                } else {
                    let cap = self.ledger.shards[shard].capacity;
                    let target = cap.saturating_sub(w);
                    let victims: Vec<Id> = evs.iter().filter(|e| e.reason == Reason::Evict).map(|e| e.id).collect();
                    self.n_evictions += victims.len() as u64;
                    self.predict_evictions(shard, target, &victims, &mut out);
                    self.ledger.follow_evictions(shard, target, &victims, &mut out);
                    let mut expect: Vec<Ev> = victims
                        .iter()
                        .map(|v| Ev {
                            reason: Reason::Evict,
                            key: self.ledger.recs.get(v).map(|r| r.info.key).unwrap_or(u64::MAX),
                            id: *v,
                        })
                        .collect();
                    if let Some(old) = self.ledger.find(shard, k) {
                        let ow = self.ledger.recs[&old].info.weight;
                        let s = &mut self.ledger.shards[shard];
                        s.usage -= ow;
                        s.entries -= 1;
                        s.index.remove(&k);
                        self.ledger.recs.get_mut(&old).unwrap().indexed = false;
                        if self.policy_live {
                            self.policies[shard].remove(old);
                        }
                        expect.push(Ev {
                            reason: Reason::Replace,
                            key: k,
                            id: old,
                        });
                    }
                    {
                        let s = &mut self.ledger.shards[shard];
                        s.index.insert(k, id);
                        s.usage += w;
                        s.entries += 1;
                    }
                    self.ledger.recs.insert(
                        id,
                        LRec {
                            info,
                            shard,
                            phantom: false,
                            indexed: true,
                            refs: 1,
                            pinned_by_lookup: false,
                            left: vec![],
                            piped: 0,
                        },
                    );
                    if self.policy_live {
                        self.policies[shard].push(info);
                    }
                    self.note_events(&evs, &mut out);
                    if evs != expect {
                        out.push(("L.events", format!("insert of k{k}: notifications {evs:?}, expected {expect:?}")));
                    }
                    self.note_piped(&piped, &victims, "insert", &mut out);
                    // Statement-level bound (C05): within capacity afterwards unless everything else is
                    // unevictable or the new entry alone is larger than the shard.
                    let s = &self.ledger.shards[shard];
                    if s.usage > s.capacity && w <= s.capacity {
                        let others: Vec<Id> = self.ledger.evictable(shard).into_iter().filter(|x| *x != id).collect();
                        if !others.is_empty() {
                            out.push((
                                "W.bound",
                                format!(
                                    "after insert of k{k} (weight {w}) shard {shard} holds {} > capacity {} with evictable entries {others:?}",
                                    s.usage, s.capacity
                                ),
                            ));
                        }
                    }
                }
                if hold {
                    self.store(e, id);
                } else {
                    self.drop_entry(e, id, &mut out);
                }
            }
            Op::Get { k, hold } => {
                let shard = self.shard_of(k);
                let via_fetch = self.via_fetch;
                let got = guard(if via_fetch { "get_or_fetch" } else { "get" }, &mut out, || {
                    if via_fetch {
                        Some(fetch_now(&cache, k, u64::MAX, false))
                    } else {
                        cache.get(&DK(k))
                    }
                });
                let Some(got) = got else { return out };
                let want = self.ledger.find(shard, k);
                match (got, want) {
                    (None, None) => {}
                    (Some(e), Some(id)) => {
                        self.n_hits += 1;
                        if value_id(e.value().0) != id || e.key().0 != k {
                            out.push((
                                "R.lookup-wrong",
                                format!("get(k{k}) returned record {} of key {}, expected record {id}", value_id(e.value().0), e.key().0),
                            ));
                        }
                        let rec = self.ledger.recs.get_mut(&id).unwrap();
                        rec.refs += 1;
                        rec.pinned_by_lookup = true;
                        if self.policy_live {
                            let h = self.hasher.hash_of(k);
                            self.policies[shard].acquire(id, h, true);
                        }
                        if hold {
                            self.store(e, id);
                        } else {
                            self.drop_entry(e, id, &mut out);
                        }
                    }
                    (Some(e), None) => {
                        out.push((
                            "R.lookup-ghost",
                            format!("get(k{k}) returned record {} although no entry for the key is resident", value_id(e.value().0)),
                        ));
                        std::mem::forget(e);
                    }
                    (None, Some(id)) => {
                        out.push(("W.findable", format!("get(k{k}) missed although record {id} is accounted as resident")));
                    }
                }
            }
            Op::Touch { k } => {
                let shard = self.shard_of(k);
                let got = guard("touch", &mut out, || cache.touch(&DK(k)));
                let Some(got) = got else { return out };
                let want = self.ledger.find(shard, k);
                if got != want.is_some() {
                    out.push(("W.findable", format!("touch(k{k}) = {got}, expected {}", want.is_some())));
                }
                if let Some(id) = want {
                    // A touch is a lookup whose handle is released at once.
                    let rec = self.ledger.recs.get_mut(&id).unwrap();
                    rec.refs += 1;
                    rec.pinned_by_lookup = true;
                    if self.policy_live {
                        let h = self.hasher.hash_of(k);
                        self.policies[shard].acquire(id, h, true);
                    }
                    self.release_ref(id, &mut out);
                }
            }
            Op::Contains { k } => {
                let shard = self.shard_of(k);
                let got = guard("contains", &mut out, || cache.contains(&DK(k)));
                let Some(got) = got else { return out };
                let want = self.ledger.find(shard, k).is_some();
                if got != want {
                    out.push(("W.findable", format!("contains(k{k}) = {got}, expected {want}")));
                }
            }
            Op::Rm { k, hold } => {
                let shard = self.shard_of(k);
                let got = guard("remove", &mut out, || cache.remove(&DK(k)));
                let Some(got) = got else { return out };
                let evs = self.take_events();
                let want = self.ledger.find(shard, k);
                let mut expect = vec![];
                if let Some(id) = want {
                    let w = self.ledger.recs[&id].info.weight;
                    let s = &mut self.ledger.shards[shard];
                    s.index.remove(&k);
                    s.usage -= w;
                    s.entries -= 1;
                    let rec = self.ledger.recs.get_mut(&id).unwrap();
                    rec.indexed = false;
                    if self.policy_live {
                        self.policies[shard].remove(id);
                    }
                    expect.push(Ev {
                        reason: Reason::Remove,
                        key: k,
                        id,
                    });
                }
                self.note_events(&evs, &mut out);
                if evs != expect {
                    out.push(("L.events", format!("remove of k{k}: notifications {evs:?}, expected {expect:?}")));
                }
                let piped = self.take_piped();
                self.note_piped(&piped, &[], "remove", &mut out);
                match (got, want) {
                    (None, None) => {}
                    (Some(e), Some(id)) => {
                        if value_id(e.value().0) != id {
                            out.push((
                                "R.lookup-wrong",
                                format!("remove(k{k}) returned record {}, expected {id}", value_id(e.value().0)),
                            ));
                        }
                        self.ledger.recs.get_mut(&id).unwrap().refs += 1;
                        if hold {
                            self.store(e, id);
                        } else {
                            self.drop_entry(e, id, &mut out);
                        }
                    }
                    (Some(e), None) => {
                        out.push(("R.lookup-ghost", format!("remove(k{k}) returned record {} although none is resident", value_id(e.value().0))));
                        std::mem::forget(e);
                    }
                    (None, Some(id)) => out.push(("W.findable", format!("remove(k{k}) found nothing although record {id} is resident"))),
                }
            }
            Op::Clear => {
                if guard("clear", &mut out, || cache.clear()).is_none() {
                    return out;
                }
                let mut evs = self.take_events();
                let mut expect = vec![];
                for (si, s) in self.ledger.shards.iter_mut().enumerate() {
                    for (k, id) in std::mem::take(&mut s.index) {
                        expect.push(Ev {
                            reason: Reason::Clear,
                            key: k,
                            id,
                        });
                        let _ = si;
                    }
                    s.usage = 0;
                    s.entries = 0;
                }
                for e in expect.iter() {
                    self.ledger.recs.get_mut(&e.id).unwrap().indexed = false;
                }
                if self.policy_live {
                    for p in self.policies.iter_mut() {
                        p.clear();
                    }
                }
                self.note_events(&evs, &mut out);
                evs.sort_by_key(|e| e.id);
                expect.sort_by_key(|e| e.id);
                if evs != expect {
                    out.push(("L.events", format!("clear: notifications {evs:?}, expected {expect:?}")));
                }
                let piped = self.take_piped();
                self.note_piped(&piped, &[], "clear", &mut out);
            }
            Op::Resize { c } => {
                let r = guard("resize", &mut out, || cache.resize(c));
                let Some(r) = r else { return out };
                if let Err(e) = r {
                    out.push(("X.resize-error", format!("resize({c}) failed: {e}")));
                    return out;
                }
                let evs = self.take_events();
                let piped = self.take_piped();
                self.follow_bulk_evictions(&evs, &piped, Some(c), "resize", false, &mut out);
            }
            Op::EvictAll => {
                if guard("evict_all", &mut out, || cache.evict_all()).is_none() {
                    return out;
                }
                let evs = self.take_events();
                let piped = self.take_piped();
                self.follow_bulk_evictions(&evs, &piped, None, "evict_all", false, &mut out);
            }
            Op::Flush => {
                let c2 = cache.clone();
                let r = guard("flush", &mut out, move || {
                    let mut fut = Box::pin(c2.flush());
                    let waker = tokio::sim::noop_waker();
                    let mut cx = std::task::Context::from_waker(&waker);
                    std::future::Future::poll(fut.as_mut(), &mut cx).is_ready()
                });
                let Some(ready) = r else { return out };
                if !ready {
                    out.push(("X.flush-pending", "flush() did not complete although the pipe never blocks".into()));
                }
                let evs = self.take_events();
                let piped = self.take_piped();
                self.follow_bulk_evictions(&evs, &piped, None, "flush", true, &mut out);
            }
            Op::FlushCancel => {
                let c2 = cache.clone();
                self.rec.slow_flush.store(true, Ordering::SeqCst);
                let r = guard("flush (cancelled)", &mut out, move || {
                    let mut fut = Box::pin(c2.flush());
                    let waker = tokio::sim::noop_waker();
                    let mut cx = std::task::Context::from_waker(&waker);
                    let ready = std::future::Future::poll(fut.as_mut(), &mut cx).is_ready();
                    drop(fut);
                    ready
                });
                self.rec.slow_flush.store(false, Ordering::SeqCst);
                if r.is_none() {
                    return out;
                }
                // Whatever left memory was handed to the pipe before the caller gave up: the same accounting as
                // for a completed flush applies (every entry that is gone was notified and offered exactly once).
                let evs = self.take_events();
                let piped = self.take_piped();
                self.follow_bulk_evictions(&evs, &piped, None, "flush", true, &mut out);
            }
            Op::FetchWaiterGone { k, w, hold } => {
                drop(cache);
                self.waiter_gives_up = true;
                let r = self.step(&Op::Fetch { k, w, hold });
                self.waiter_gives_up = false;
                return r;
            }
            Op::Fetch { k, w, hold } => {
                let shard = self.shard_of(k);
                let inner = if self.ledger.find(shard, k).is_some() {
                    Op::Get { k, hold }
                } else {
                    Op::Ins {
                        k,
                        w,
                        low: false,
                        reject: false,
                        hold,
                    }
                };
                drop(cache);
                self.via_fetch = true;
                let r = self.step(&inner);
                self.via_fetch = false;
                return r;
            }
            Op::DropH { slot } => {
                if let Some(Some((e, id))) = self.slots.get_mut(slot).map(|s| s.take()) {
                    self.drop_entry(e, id, &mut out);
                }
            }
            Op::CloneH { slot } => {
                let cloned = match self.slots.get(slot) {
                    Some(Some((e, id))) => {
                        let id = *id;
                        guard("clone of a handle", &mut out, || e.clone()).map(|c| (c, id))
                    }
                    _ => None,
                };
                if let Some((c, id)) = cloned {
                    self.ledger.recs.get_mut(&id).unwrap().refs += 1;
                    self.store(c, id);
                }
            }
        }
        drop(cache);
        self.check_quiescent(&mut out);
        out
    }

    /// evict_all / flush / resize: per shard, follow the reported victims towards the target.
    fn follow_bulk_evictions(
        &mut self,
        evs: &[Ev],
        piped: &[(u64, Id, bool)],
        new_capacity: Option<usize>,
        what: &str,
        via_flush: bool,
        out: &mut Vec<Complaint>,
    ) {
        let shards = self.cfg.shards;
        let mut per_shard: Vec<Vec<Id>> = vec![vec![]; shards];
        for e in evs {
            if e.reason != Reason::Evict {
                out.push(("L.events", format!("{what}: unexpected notification {e:?}")));
                continue;
            }
            match self.ledger.recs.get(&e.id) {
                Some(r) => per_shard[r.shard].push(e.id),
                None => out.push(("L.unknown", format!("{what}: notification {e:?} for an unknown record"))),
            }
        }
        for shard in 0..shards {
            let target = match new_capacity {
                Some(c) => {
                    let sc = shard_capacity_for(c, shards, shard);
                    self.ledger.shards[shard].capacity = sc;
                    if self.policy_live {
                        self.policies[shard].update(sc);
                    }
                    sc
                }
                None => 0,
            };
            let victims = per_shard[shard].clone();
            self.n_evictions += victims.len() as u64;
            self.predict_evictions(shard, target, &victims, out);
            self.ledger.follow_evictions(shard, target, &victims, out);
        }
        self.note_events(evs, out);
        if self.cfg.pipe {
            // Same multiset as the victims; order is per shard (resize runs shards on helper threads).
            let mut expect: Vec<Id> = per_shard.concat();
            let mut got: Vec<Id> = piped.iter().map(|p| p.1).collect();
            for (_, id, _) in piped {
                if let Some(r) = self.ledger.recs.get_mut(id) {
                    r.piped += 1;
                }
            }
            if piped.iter().any(|p| p.2 != via_flush) {
                out.push(("L.pipe-channel", format!("{what}: pieces delivered through the wrong pipe call: {piped:?}")));
            }
            expect.sort();
            got.sort();
            if got != expect {
                let clause = if expect.iter().any(|e| !got.contains(e)) || got.len() < expect.len() {
                    "L.pipe-missing"
                } else {
                    "L.pipe-spurious"
                };
                out.push((clause, format!("{what}: offered to the disk tier {got:?}, expected the evicted {expect:?}")));
            }
        }
    }

    /// Checks that hold at every quiescent point.
    pub fn check_quiescent(&mut self, out: &mut Vec<Complaint>) {
        let Some(cache) = self.cache.as_ref() else { return };
        let (u, e) = (cache.usage(), cache.entries());
        if u != self.ledger.usage() {
            out.push((
                "W.usage-eq",
                format!("usage() = {u} but the findable entries weigh {}", self.ledger.usage()),
            ));
        }
        if e != self.ledger.entries() {
            out.push((
                "W.entries-eq",
                format!("entries() = {e} but {} entries are findable", self.ledger.entries()),
            ));
        }
        for k in self.universe.clone() {
            let shard = self.shard_of(k);
            let got = cache.contains(&DK(k));
            let want = self.ledger.find(shard, k).is_some();
            if got != want {
                out.push(("W.findable", format!("contains(k{k}) = {got}, reference says {want}")));
            }
        }
        for (i, s) in self.slots.iter().enumerate() {
            let Some((e, id)) = s else { continue };
            let rec = &self.ledger.recs[id];
            let v = e.value().0;
            if e.key().0 != rec.info.key || value_id(v) != *id || e.weight() != rec.info.weight {
                out.push((
                    "H.unchanged",
                    format!(
                        "handle h{i} now reads key {} value-id {} weight {}, was key {} id {id} weight {}",
                        e.key().0,
                        value_id(v),
                        e.weight(),
                        rec.info.key,
                        rec.info.weight
                    ),
                ));
            }
            if e.refs() != rec.refs {
                out.push((
                    "H.refs",
                    format!("record {id} (key {}) counts {} references but {} handles exist", rec.info.key, e.refs(), rec.refs),
                ));
            }
            let findable_same = self.ledger.find(rec.shard, rec.info.key) == Some(*id);
            if e.is_outdated() == findable_same {
                out.push((
                    "H.outdated",
                    format!(
                        "handle h{i} (key {}, record {id}): is_outdated() = {} but a lookup {} return this record",
                        rec.info.key,
                        e.is_outdated(),
                        if findable_same { "would" } else { "would not" }
                    ),
                ));
            }
        }
    }

    /// Epilogue of every sequence: drop all handles, insert one fresh unit entry per shard (nothing may
    /// be left pinned: the shard must be back within capacity), drop the cache, and require that every
    /// admitted entry left exactly once.
    pub fn finish(&mut self) -> Vec<Complaint> {
        let mut out = vec![];
        for i in 0..self.slots.len() {
            if let Some((e, id)) = self.slots[i].take() {
                self.drop_entry(e, id, &mut out);
            }
        }
        if !out.is_empty() {
            return out;
        }
        let shards = self.cfg.shards;
        let mut fresh = 1_000u64;
        for shard in 0..shards {
            // find a fresh key of this shard
            while self.shard_of(fresh) != shard {
                fresh += 1;
            }
            let k = fresh;
            fresh += 1;
            if self.ledger.shards[shard].capacity == 0 {
                continue;
            }
            let c = self.step(&Op::Ins {
                k,
                w: 1,
                low: false,
                reject: false,
                hold: false,
            });
            for (clause, msg) in c {
                let clause = if clause == "W.under-evict" || clause == "W.bound" { "H.leak" } else { clause };
                out.push((clause, format!("with no handle outstanding: {msg}")));
            }
            let s = &self.ledger.shards[shard];
            if s.usage > s.capacity {
                out.push((
                    "H.leak",
                    format!("with no handle outstanding an insert left shard {shard} at {} > capacity {}", s.usage, s.capacity),
                ));
            }
            if !out.is_empty() {
                return out;
            }
        }
        // Drop the cache: the rest leaves by Clear.
        let cache = self.cache.take();
        guard("drop of the cache", &mut out, move || drop(cache));
        let mut evs = self.take_events();
        let mut expect = vec![];
        for s in self.ledger.shards.iter_mut() {
            for (k, id) in std::mem::take(&mut s.index) {
                expect.push(Ev {
                    reason: Reason::Clear,
                    key: k,
                    id,
                });
            }
        }
        for e in expect.iter() {
            self.ledger.recs.get_mut(&e.id).unwrap().indexed = false;
        }
        self.note_events(&evs, &mut out);
        evs.sort_by_key(|e| e.id);
        expect.sort_by_key(|e| e.id);
        if evs != expect {
            out.push(("L.events", format!("drop of the cache: notifications {evs:?}, expected {expect:?}")));
        }
        for (id, r) in self.ledger.recs.iter() {
            if r.phantom {
                if self.cfg.pipe && r.piped != 1 {
                    out.push((
                        if r.piped == 0 { "L.pipe-missing" } else { "L.pipe-spurious" },
                        format!("disk-only record {id} (key {}) was offered to the disk tier {} times", r.info.key, r.piped),
                    ));
                }
                continue;
            }
            if r.left.len() != 1 {
                out.push((
                    if r.left.is_empty() { "L.missing-leave" } else { "L.twice" },
                    format!("record {id} (key {}) left {} times: {:?}", r.info.key, r.left.len(), r.left),
                ));
            }
            if self.cfg.pipe {
                let want = usize::from(r.left == [Reason::Evict]);
                if r.piped != want {
                    out.push((
                        if r.piped < want { "L.pipe-missing" } else { "L.pipe-spurious" },
                        format!(
                            "record {id} (key {}) left as {:?} and was offered to the disk tier {} times",
                            r.info.key, r.left, r.piped
                        ),
                    ));
                }
            }
        }
        out
    }

    /// Canonical key of the reference state (for explicit-state deduplication).
    pub fn state_key(&self) -> Vec<u64> {
        let mut k = vec![];
        self.ledger.state_key(&mut k);
        for p in self.policies.iter() {
            k.push(0xCCCC);
            p.state_key(&mut k);
        }
        k.push(0xDDDD);
        for s in self.slots.iter() {
            match s {
                Some((_, id)) => k.push(idv(*id)),
                None => k.push(0),
            }
        }
        canonicalize(&mut k);
        k
    }

    /// Fingerprint of what an observer can see now (for outcome counting).
    pub fn observation(&self) -> Vec<u64> {
        let mut k = vec![self.ledger.usage() as u64, self.ledger.entries() as u64];
        for s in self.ledger.shards.iter() {
            for (key, id) in s.index.iter() {
                k.push(*key);
                k.push(self.ledger.recs[id].info.weight as u64);
            }
            k.push(u64::MAX);
        }
        k
    }
}

impl Driver {
    /// Drop every held handle, then the cache, without consulting the ledger (differential runs).
    pub fn teardown(&mut self) -> Vec<Complaint> {
        let mut out = vec![];
        let slots = std::mem::take(&mut self.slots);
        guard("dropping the held handles", &mut out, move || drop(slots));
        let cache = self.cache.take();
        guard("dropping the cache", &mut out, move || drop(cache));
        tokio::sim::run_until_stalled(10_000);
        out
    }
}

impl Drop for Driver {
    fn drop(&mut self) {
        // The implementation may be in a state (after a reported violation, or under a seeded defect)
        // in which its own destructors panic; that must not take the worker process down.
        let slots = std::mem::take(&mut self.slots);
        let cache = self.cache.take();
        let _ = catch_unwind(AssertUnwindSafe(move || drop(slots)));
        let _ = catch_unwind(AssertUnwindSafe(move || drop(cache)));
    }
}

/// Keep the compiler from warning about unused helper types in some configurations.
#[allow(dead_code)]
fn _unused(_: Weak<()>, _: BTreeMap<u8, u8>) {}
