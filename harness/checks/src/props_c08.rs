//! C08 — every storable key/value round-trips through the disk format bit-exactly.
//!
//! Input-space enumeration: (1) `Code::encode`/`decode` directly, including encoding into every
//! destination length from 0 to needed+1; (2) end to end through the real hybrid cache (insert →
//! flush → evict from memory → lookup from disk) for every value length from 0 to the per-entry
//! maximum plus two pages, under each compression mode, with the independent reader D checking
//! the recorded lengths against the bytes on the device.

use std::{
    fmt::Debug,
    sync::Arc,
    time::{Duration, Instant},
};

use foyer::{
    BlockEngineConfig, Code, Compression, DeviceBuilder, ErrorKind, FifoPicker, FsDeviceBuilder, HybridCache, HybridCacheBuilder,
    HybridCachePolicy, StorageValue,
};
use serde_json::{json, Value};
use tokio::sim;
use vcore::evidence::{ShardResult, Violation};

use crate::{
    dformat,
    disk,
    framework::{Prop, Tier},
    hyb::{cleanup_scratch, scratch_root},
    memdrive::VHash,
    simio::{SimIo, SimIoConfig},
};

pub struct C08Prop;

// ---------------------------------------------------------------------------------------------
// Part 1: Code
// ---------------------------------------------------------------------------------------------

fn code_roundtrip<T: Code + PartialEq + Debug>(x: &T, what: &str, out: &mut Vec<(String, String)>, res: &mut ShardResult) {
    // A handful of witnesses per shard is enough (every one of them is replayed twice by the coordinator).
    if out.len() >= 6 {
        return;
    }
    res.add("code_values", 1);
    let mut buf = vec![];
    if let Err(e) = x.encode(&mut buf) {
        out.push(("E.encode-failed".into(), format!("{what}: encode into a Vec failed: {e}")));
        return;
    }
    if buf.len() != x.estimated_size() {
        out.push(("E.estimated-size".into(), format!("{what}: estimated_size() = {} but {} bytes were encoded", x.estimated_size(), buf.len())));
    }
    match T::decode(&mut &buf[..]) {
        Ok(y) => {
            if y != *x {
                out.push(("E.roundtrip".into(), format!("{what}: decode(encode(x)) != x")));
            }
        }
        Err(e) => out.push(("E.roundtrip".into(), format!("{what}: decode failed: {e}"))),
    }
    // The same bytes through readers that answer every `read` with at most 1 / 3 bytes (what a streaming
    // decompressor does at its block boundaries): short reads are legal, the decoded value must not change.
    // Long inputs only with the 3-byte reader and only up to 64 KiB (a byte at a time is quadratic in some decoders).
    if buf.len() <= 65536 {
        for chunk in [1usize, 3] {
            if chunk == 1 && buf.len() > 4096 {
                continue;
            }
            struct Dribble<'a> {
                data: &'a [u8],
                chunk: usize,
            }
            impl std::io::Read for Dribble<'_> {
                fn read(&mut self, out: &mut [u8]) -> std::io::Result<usize> {
                    let n = self.chunk.min(out.len()).min(self.data.len());
                    out[..n].copy_from_slice(&self.data[..n]);
                    self.data = &self.data[n..];
                    Ok(n)
                }
            }
            let mut r = Dribble { data: &buf[..], chunk };
            match T::decode(&mut r) {
                Ok(y) if y == *x => {}
                Ok(_) => out.push(("E.roundtrip".into(), format!("{what}: decoding through a reader that returns {chunk} byte(s) per read gives a different value"))),
                Err(e) => out.push(("E.roundtrip".into(), format!("{what}: decoding through a reader that returns {chunk} byte(s) per read failed: {e}"))),
            }
        }
    }
}

/// Encoding into a destination of every length 0..=needed+1.
fn code_small_buffers<T: Code + PartialEq + Debug>(x: &T, what: &str, out: &mut Vec<(String, String)>, res: &mut ShardResult) {
    let mut full = vec![];
    if x.encode(&mut full).is_err() {
        return;
    }
    let needed = full.len();
    for n in 0..=needed + 1 {
        res.add("small_buffer_cases", 1);
        let mut dst = vec![0xAAu8; n];
        let r = {
            let mut w: &mut [u8] = &mut dst[..];
            x.encode(&mut w)
        };
        match r {
            Ok(()) => {
                if n < needed {
                    out.push(("E.partial-success".into(), format!("{what}: encoding {needed} bytes into a buffer of {n} reported success")));
                    return;
                }
                if dst[..needed] != full[..] {
                    out.push(("E.roundtrip".into(), format!("{what}: bytes encoded into an exact buffer differ")));
                    return;
                }
            }
            Err(e) => {
                if n >= needed {
                    out.push(("E.spurious-limit".into(), format!("{what}: encoding {needed} bytes into {n} failed: {e}")));
                    return;
                }
                if e.kind() != ErrorKind::BufferSizeLimit {
                    out.push(("E.wrong-error".into(), format!("{what}: too-small buffer reported {:?} instead of BufferSizeLimit", e.kind())));
                    return;
                }
            }
        }
    }
}

fn patterns_u128() -> Vec<u128> {
    let mut v = vec![0u128, 1, 2, u128::MAX, u128::MAX - 1, 0x0102_0304_0506_0708_090A_0B0C_0D0E_0F10, 0x8000_0000_0000_0000_0000_0000_0000_0000];
    for b in 0..128 {
        v.push(1u128 << b);
        v.push((1u128 << b).wrapping_sub(1));
        v.push(!(1u128 << b));
    }
    v
}

pub fn content(len: usize, class: usize) -> Vec<u8> {
    match class % 3 {
        0 => vec![0u8; len],
        1 => (0..len).map(|i| (i % 251) as u8).collect(),
        _ => {
            let mut x = 0x9E37_79B9_7F4A_7C15u64 ^ len as u64 | 1;
            (0..len)
                .map(|_| {
                    x ^= x << 13;
                    x ^= x >> 7;
                    x ^= x << 17;
                    x as u8
                })
                .collect()
        }
    }
}

fn part1(shard: (usize, usize), tier: Tier, res: &mut ShardResult) -> Vec<(String, String)> {
    let mut out = vec![];
    if shard.0 == 0 {
        for x in 0..=u8::MAX {
            code_roundtrip(&x, &format!("u8 {x}"), &mut out, res);
            code_roundtrip(&(x as i8), &format!("i8 {}", x as i8), &mut out, res);
        }
        code_roundtrip(&true, "bool true", &mut out, res);
        code_roundtrip(&false, "bool false", &mut out, res);
        code_small_buffers(&true, "bool", &mut out, res);
        for x in 0..=u16::MAX {
            code_roundtrip(&x, &format!("u16 {x}"), &mut out, res);
            code_roundtrip(&(x as i16), &format!("i16 {}", x as i16), &mut out, res);
        }
        for p in patterns_u128() {
            code_roundtrip(&(p as u32), "u32", &mut out, res);
            code_roundtrip(&(p as i32), "i32", &mut out, res);
            code_roundtrip(&(p as u64), "u64", &mut out, res);
            code_roundtrip(&(p as i64), "i64", &mut out, res);
            code_roundtrip(&p, "u128", &mut out, res);
            code_roundtrip(&(p as i128), "i128", &mut out, res);
            code_roundtrip(&(p as usize), "usize", &mut out, res);
            code_roundtrip(&(p as isize), "isize", &mut out, res);
            let f = f32::from_bits(p as u32);
            if !f.is_nan() {
                code_roundtrip(&f, "f32", &mut out, res);
            }
            let d = f64::from_bits(p as u64);
            if !d.is_nan() {
                code_roundtrip(&d, "f64", &mut out, res);
            }
        }
        code_small_buffers(&0x0102_0304u32, "u32", &mut out, res);
        code_small_buffers(&0x0102_0304_0506_0708u64, "u64", &mut out, res);
        code_small_buffers(&u128::MAX, "u128", &mut out, res);
        for s in ["", "a", "hello world", "ßüñ 日本語 \u{1F980}", &"x".repeat(1000), &"é".repeat(300)] {
            let s = s.to_string();
            code_roundtrip(&s, &format!("String of {} bytes", s.len()), &mut out, res);
            if s.len() < 64 {
                code_small_buffers(&s, &format!("String of {} bytes", s.len()), &mut out, res);
            }
        }
    }
    // Long byte strings: lengths around every power of two from 32 KiB to 4 MiB (and 3 * 2^k), where chunked
    // readers / writers change regime. Codec level only (an entry of that size needs blocks of several MiB).
    {
        let mut longs: Vec<usize> = vec![];
        for k in 15..=22u32 {
            for base in [1usize << k, 3usize << (k - 1)] {
                if base <= (1 << 22) {
                    longs.extend([base - 1, base, base + 1]);
                }
            }
        }
        for (i, len) in longs.into_iter().enumerate() {
            if i % shard.1 != shard.0 {
                continue;
            }
            for class in 1..3 {
                let v = content(len, class);
                code_roundtrip(&v, &format!("Vec<u8> of {len} bytes (class {class})"), &mut out, res);
                code_roundtrip(&bytes::Bytes::from(v), &format!("Bytes of {len} bytes (class {class})"), &mut out, res);
            }
            let ascii: String = (0..len).map(|i| (b'a' + (i % 26) as u8) as char).collect();
            code_roundtrip(&ascii, &format!("String of {len} bytes (ascii)"), &mut out, res);
            // two-byte characters, shifted by one byte so that they straddle every even boundary
            let mut multi = String::with_capacity(len + 2);
            multi.push('x');
            while multi.len() + 2 <= len {
                multi.push('é');
            }
            code_roundtrip(&multi, &format!("String of {} bytes (two-byte characters)", multi.len()), &mut out, res);
            res.add("long_strings", 1);
            if !out.is_empty() {
                return out;
            }
        }
    }
    // Vec<u8> and Bytes of every length
    let max = 12288 + 2 * 4096;
    let step = if tier == Tier::Quick { 1 } else { 1 };
    let mut len = shard.0;
    while len <= max {
        for class in 0..3 {
            let v = content(len, class);
            code_roundtrip(&v, &format!("Vec<u8> of {len} bytes (class {class})"), &mut out, res);
            code_roundtrip(&bytes::Bytes::from(v), &format!("Bytes of {len} bytes (class {class})"), &mut out, res);
        }
        if len <= 40 || [100usize, 4087, 4088, 4089, 4095, 4096, 4097].contains(&len) {
            code_small_buffers(&content(len, 1), &format!("Vec<u8> of {len} bytes"), &mut out, res);
            code_small_buffers(&bytes::Bytes::from(content(len, 2)), &format!("Bytes of {len} bytes"), &mut out, res);
        }
        if !out.is_empty() {
            return out;
        }
        len += shard.1 * step;
    }
    out
}

// ---------------------------------------------------------------------------------------------
// Part 2: end to end
// ---------------------------------------------------------------------------------------------

const BLOCK: usize = 16 * 1024;
const INDEX: usize = 4096;
const ENTRY_OVERHEAD: usize = dformat::HEADER_LEN + 8 + 8;

async fn open_cache<V: StorageValue + Clone>(dir: &std::path::Path, io: &SimIo, compression: Compression, blocks: usize) -> foyer::Result<HybridCache<u64, V, VHash>> {
    let device = FsDeviceBuilder::new(dir).with_capacity(blocks * BLOCK).build()?;
    let engine = BlockEngineConfig::new(device)
        .with_block_size(BLOCK)
        .with_blob_index_size(INDEX)
        .with_indexer_shards(2)
        .with_flushers(1)
        .with_buffer_pool_size(2 * 1024 * 1024)
        .with_compression(compression)
        .with_eviction_pickers(vec![Box::new(FifoPicker::new(0.1))]);
    HybridCacheBuilder::new()
        .with_policy(HybridCachePolicy::WriteOnInsertion)
        .memory(1 << 20)
        .with_shards(1)
        .with_hash_builder(VHash::default())
        .storage()
        .with_io_engine_config(Box::new(SimIoConfig { io: io.clone() }) as Box<dyn foyer::IoEngineConfig>)
        .with_engine_config(engine)
        .with_compression(compression)
        .build()
        .await
}

/// Insert all values, flush, empty the memory tier, read everything back from disk; then reopen and
/// read again. Returns (per-key result before reopen, after reopen) as Option<V>.
fn e2e<V>(values: Vec<V>, compression: Compression, blocks: usize) -> Result<(Vec<Option<V>>, Vec<Option<V>>, disk::Image, Vec<String>), String>
where
    V: StorageValue + Clone + Send + Sync + 'static,
{
    sim::reset();
    let dir = scratch_root().join("c08");
    let _ = std::fs::remove_dir_all(&dir);
    std::fs::create_dir_all(&dir).map_err(|e| e.to_string())?;
    let io = SimIo::new();
    io.set_auto(true);
    let n = values.len();
    let d2 = dir.clone();
    let io2 = io.clone();
    let vals = values.clone();
    let first = sim::block_on(async move {
        let cache = open_cache::<V>(&d2, &io2, compression, blocks).await.map_err(|e| format!("open: {e}"))?;
        for (i, v) in vals.into_iter().enumerate() {
            let e = cache.insert(i as u64 + 1, v);
            drop(e);
        }
        cache.storage().wait().await;
        cache.memory().evict_all();
        let mut got = vec![];
        for i in 0..n {
            match cache.get(&(i as u64 + 1)).await {
                Ok(Some(e)) => got.push(Some(e.value().clone())),
                Ok(None) => got.push(None),
                Err(e) => return Err(format!("get failed: {e}")),
            }
        }
        cache.close().await.map_err(|e| format!("close: {e}"))?;
        Ok::<_, String>(got)
    })?;
    sim::run_until_stalled(100_000);
    let image = disk::capture(&dir);
    let d3 = dir.clone();
    let io3 = io.clone();
    let second = sim::block_on(async move {
        let cache = open_cache::<V>(&d3, &io3, compression, blocks).await.map_err(|e| format!("reopen: {e}"))?;
        let mut got = vec![];
        for i in 0..n {
            match cache.get(&(i as u64 + 1)).await {
                Ok(Some(e)) => got.push(Some(e.value().clone())),
                Ok(None) => got.push(None),
                Err(e) => return Err(format!("get after reopen failed: {e}")),
            }
        }
        cache.close().await.map_err(|e| format!("close: {e}"))?;
        Ok::<_, String>(got)
    })?;
    let panics = sim::take_panics();
    sim::reset();
    let _ = std::fs::remove_dir_all(&dir);
    Ok((first, second, image, panics))
}

fn comp_name(c: Compression) -> &'static str {
    match c {
        Compression::None => "none",
        Compression::Zstd => "zstd",
        Compression::Lz4 => "lz4",
    }
}

/// `Vec<u8>` values of the given lengths.
fn e2e_bytes(lens: &[usize], compression: Compression, res: &mut ShardResult) -> Vec<(String, String)> {
    let mut out = vec![];
    let values: Vec<Vec<u8>> = lens.iter().map(|l| content(*l, *l)).collect();
    let pages: usize = lens.iter().map(|l| dformat::align_up(l + ENTRY_OVERHEAD) / 4096).sum();
    let blocks = (pages / 2 + 8).max(8);
    let (first, second, image, panics) = match e2e(values.clone(), compression, blocks) {
        Ok(r) => r,
        Err(e) => return vec![("X.panic".into(), format!("round trip did not complete: {e}"))],
    };
    for p in panics {
        out.push(("X.panic".into(), p));
    }
    // what is on the device, per hash
    let mut on_disk: std::collections::BTreeMap<u64, Vec<dformat::DEntry>> = Default::default();
    for part in image.parts.iter() {
        for blob in dformat::scan_block(part, INDEX) {
            for s in blob.slots.iter() {
                if let Some(e) = dformat::decode_entry(part, blob.offset + s.offset as usize) {
                    on_disk.entry(s.hash).or_default().push(e);
                }
            }
        }
    }
    for (i, v) in values.iter().enumerate() {
        res.add("e2e_values", 1);
        let key = i as u64 + 1;
        let len = v.len();
        let fits_uncompressed = dformat::align_up(len + ENTRY_OVERHEAD) <= BLOCK - INDEX;
        let what = format!("Vec<u8> of {len} bytes under {}", comp_name(compression));
        let stored = on_disk.get(&key).cloned().unwrap_or_default();
        for (when, got) in [("after flush", &first[i]), ("after reopen", &second[i])] {
            match got {
                Some(g) => {
                    res.add("e2e_hits", 1);
                    if g != v {
                        out.push(("E.roundtrip".into(), format!("{what}: the value read back {when} differs from the original ({} bytes read)", g.len())));
                    }
                }
                None => {
                    res.add("e2e_misses", 1);
                    // An accepted entry must read back; an entry that cannot fit may be rejected as a whole.
                    if !stored.is_empty() {
                        out.push(("E.accepted-but-unreadable".into(), format!("{what}: the entry is on the device ({} copies) but reads as a miss {when}", stored.len())));
                    } else if fits_uncompressed && compression == Compression::None {
                        out.push(("E.rejected-although-fits".into(), format!("{what}: the entry fits the per-entry limit but was not stored")));
                    }
                }
            }
        }
        for e in stored.iter() {
            res.add(
                match e.header.compression {
                    0 => "entries_on_disk_none",
                    1 => "entries_on_disk_zstd",
                    _ => "entries_on_disk_lz4",
                },
                1,
            );
            if e.header.compression != compression.to_u8() {
                out.push(("E.compression-ignored".into(), format!("{what}: the stored entry is marked with compression {}", e.header.compression)));
            }
            if !e.checksum_ok {
                out.push(("E.lengths".into(), format!("{what}: the stored entry's checksum over the recorded lengths does not match the bytes on the device")));
            }
            if e.header.key_len != 8 {
                out.push(("E.lengths".into(), format!("{what}: recorded key length {} != 8", e.header.key_len)));
            }
            if compression == Compression::None && e.header.value_len as usize != len + 8 {
                out.push(("E.lengths".into(), format!("{what}: recorded value length {} != {} bytes written", e.header.value_len, len + 8)));
            }
            match &e.value {
                Some(dv) if dv == v => {}
                Some(dv) => out.push(("E.truncated".into(), format!("{what}: the bytes on the device decode to {} bytes, not the original", dv.len()))),
                None => out.push(("E.truncated".into(), format!("{what}: the bytes on the device do not decode to a complete value"))),
            }
            if dformat::align_up(e.header.total_len()) > BLOCK - INDEX {
                out.push(("E.oversize-stored".into(), format!("{what}: an entry of {} bytes exceeds the per-entry limit but is on the device", e.header.total_len())));
            }
        }
        if !out.is_empty() {
            return out;
        }
    }
    out
}

fn e2e_typed<V>(values: Vec<V>, name: &str, compression: Compression, res: &mut ShardResult) -> Vec<(String, String)>
where
    V: StorageValue + Clone + PartialEq + Debug + Send + Sync + 'static,
{
    let mut out = vec![];
    match e2e(values.clone(), compression, 64) {
        Ok((first, second, _img, panics)) => {
            for p in panics {
                out.push(("X.panic".into(), p));
            }
            for (i, v) in values.iter().enumerate() {
                res.add("e2e_values", 1);
                for (when, got) in [("after flush", &first[i]), ("after reopen", &second[i])] {
                    match got {
                        Some(g) if g == v => res.add("e2e_hits", 1),
                        Some(g) => out.push(("E.roundtrip".into(), format!("{name} {v:?} under {} reads back as {g:?} {when}", comp_name(compression)))),
                        None => out.push(("E.accepted-but-unreadable".into(), format!("{name} {v:?} under {} reads as a miss {when}", comp_name(compression)))),
                    }
                }
            }
        }
        Err(e) => out.push(("X.panic".into(), format!("{name}: round trip did not complete: {e}"))),
    }
    out
}

fn part2(shard: (usize, usize), tier: Tier, deadline: Instant, res: &mut ShardResult) -> Vec<(String, String)> {
    let mut out = vec![];
    let comps = [Compression::None, Compression::Zstd, Compression::Lz4];
    if shard.0 == 0 {
        for c in comps {
            out.extend(e2e_typed::<u64>(vec![0, 1, u64::MAX, 0x0102030405060708], "u64", c, res));
            out.extend(e2e_typed::<i32>(vec![0, -1, i32::MIN, i32::MAX], "i32", c, res));
            out.extend(e2e_typed::<u8>(vec![0, 1, 255], "u8", c, res));
            out.extend(e2e_typed::<bool>(vec![true, false], "bool", c, res));
            out.extend(e2e_typed::<f64>(vec![0.0, -1.5, f64::MAX, f64::MIN_POSITIVE], "f64", c, res));
            out.extend(e2e_typed::<String>(vec![String::new(), "a".into(), "ßüñ 日本語".into(), "x".repeat(5000)], "String", c, res));
            out.extend(e2e_typed::<bytes::Bytes>(vec![bytes::Bytes::new(), bytes::Bytes::from(content(4044, 2)), bytes::Bytes::from(content(9000, 1))], "Bytes", c, res));
        }
        if !out.is_empty() {
            return out;
        }
    }
    // every length 0..=max entry + 2 pages, 32 lengths per cache instance
    let max = (BLOCK - INDEX) + 2 * 4096;
    let stride = if tier == Tier::Quick { 2 } else { 1 };
    let lens: Vec<usize> = (0..=max).filter(|l| l % stride == 0 || (l + ENTRY_OVERHEAD) % 4096 <= 2 || (l + ENTRY_OVERHEAD) % 4096 >= 4094).collect();
    let chunks: Vec<&[usize]> = lens.chunks(32).collect();
    for (ci, chunk) in chunks.iter().enumerate() {
        if ci % shard.1 != shard.0 {
            continue;
        }
        if Instant::now() >= deadline {
            res.capped = true;
            res.notes.insert("wall cap reached before all lengths were tried".into());
            break;
        }
        for c in comps {
            res.add("executions", 1);
            res.add("steps", chunk.len() as u64);
            res.fp(vcore::fingerprint(&(chunk[0], c as u8)));
            out.extend(e2e_bytes(chunk, c, res));
            if !out.is_empty() {
                return out;
            }
        }
    }
    out
}

/// Only in the build with foyer's `serde` feature: types that are encodable *only* through the blanket
/// bincode implementation (proves the path is the one in use) round-trip and respect buffer limits.
#[cfg(feature = "serde_path")]
fn blanket_only(res: &mut ShardResult) -> Vec<(String, String)> {
    #[derive(Debug, Clone, PartialEq, serde::Serialize, serde::Deserialize)]
    struct Rec {
        id: u32,
        name: String,
        tags: Vec<u16>,
        opt: Option<i64>,
    }
    let mut out = vec![];
    for n in 0..40usize {
        let r = Rec { id: n as u32 * 7919, name: "é".repeat(n), tags: (0..n as u16).collect(), opt: if n % 2 == 0 { None } else { Some(-(n as i64)) } };
        code_roundtrip(&r, &format!("derived struct #{n}"), &mut out, res);
        code_small_buffers(&r, &format!("derived struct #{n}"), &mut out, res);
        code_roundtrip(&(n as u8, n as u64 * 3, format!("t{n}")), &format!("tuple #{n}"), &mut out, res);
        code_roundtrip(&vec![n as u32; n], &format!("Vec<u32> of {n}"), &mut out, res);
        code_small_buffers(&vec![n as u32; n], &format!("Vec<u32> of {n}"), &mut out, res);
        res.add("blanket_only_values", 3);
    }
    out
}

#[cfg(not(feature = "serde_path"))]
fn blanket_only(_: &mut ShardResult) -> Vec<(String, String)> {
    vec![]
}

fn serde_binary() -> std::path::PathBuf {
    if let Some(p) = std::env::var_os("VERIF_SERDE_BIN") {
        return p.into();
    }
    // <root>/target/release/check -> <root>/target-serde/release/check
    let exe = std::env::current_exe().unwrap_or_default();
    let root = exe.parent().and_then(|p| p.parent()).and_then(|p| p.parent()).map(|p| p.to_path_buf()).unwrap_or_default();
    root.join("target-serde/release/check")
}

/// Run the same shard of the enumeration in the serde build and merge what it found. A missing or failing
/// serde build is a machinery error (the worker panics, the coordinator reports exit 2), never a verdict.
fn serde_part(tier: Tier, shard: (usize, usize), deadline: Instant, res: &mut ShardResult) {
    let bin = serde_binary();
    if !bin.exists() {
        panic!("the serde build of the checks is missing at {}: bin/check C08 builds it", bin.display());
    }
    let out = std::env::temp_dir().join(format!("foyer-verif-c08-serde-{}-{}.json", std::process::id(), shard.0));
    let _ = std::fs::remove_file(&out);
    let wall = deadline.saturating_duration_since(Instant::now()).as_secs().max(5);
    let status = std::process::Command::new(&bin)
        .args(["C08", "--tier", tier.name(), "--wall", &wall.to_string(), "--shard", &format!("{}/{}", shard.0, shard.1), "--shard-out"])
        .arg(&out)
        .stdin(std::process::Stdio::null())
        .status()
        .expect("spawn the serde build");
    let bytes = std::fs::read(&out).unwrap_or_else(|_| panic!("the serde build ({status}) wrote no result"));
    let _ = std::fs::remove_file(&out);
    let r: ShardResult = serde_json::from_slice(&bytes).expect("result of the serde build");
    if r.get("blanket_only_values") == 0 && shard.0 == 0 {
        panic!("the binary at {} was not built with the serde feature", bin.display());
    }
    for (k, v) in r.counters.iter() {
        res.add(&format!("serde_{k}"), *v);
    }
    for fp in r.fingerprints.iter() {
        res.fp(fp ^ 0x5E4D_E000_0000_0001);
    }
    res.capped |= r.capped;
    for n in r.notes {
        res.notes.insert(format!("serde build: {n}"));
    }
    for mut v in r.violations {
        v.message = format!("[build with foyer's serde feature: bincode path] {}", v.message);
        v.signature = format!("{}|serde", v.signature);
        v.witness["serde_path"] = json!(true);
        res.violations.push(v);
    }
}

impl Prop for C08Prop {
    fn id(&self) -> &'static str {
        "C08"
    }

    fn worker(&self, tier: Tier, shard: (usize, usize), deadline: Instant) -> ShardResult {
        let mut res = ShardResult::default();
        let mut complaints = part1(shard, tier, &mut res);
        if complaints.is_empty() {
            complaints.extend(part2(shard, tier, deadline, &mut res));
        }
        if cfg!(feature = "serde_path") {
            if shard.0 == 0 {
                complaints.extend(blanket_only(&mut res));
            }
        } else if std::env::var_os("VERIF_C08_NO_SERDE").is_none() {
            // The same enumeration on the build of these checks with foyer's `serde` feature (bincode path).
            serde_part(tier, shard, deadline, &mut res);
        }
        res.sample(json!({"input": "Vec<u8> of every length 0..=20480, three content classes, none/zstd/lz4", "engine": "input enumeration"}), 1);
        for (clause, msg) in complaints {
            let signature = format!("{clause}|{}", msg.split(':').next().unwrap_or("").split(" of ").next().unwrap_or(""));
            if !res.violations.iter().any(|v| v.signature == signature) {
                res.violations.push(Violation {
                    property: "C08".into(),
                    clause,
                    signature,
                    message: msg,
                    witness: json!({"engine": "inputs", "shard": [shard.0, shard.1], "tier": tier.name()}),
                });
            }
        }
        cleanup_scratch();
        res
    }

    fn replay(&self, witness: &Value, _verbose: bool) -> Vec<Violation> {
        // The enumeration is deterministic: re-run the shard that found it.
        let shard = (
            witness["shard"][0].as_u64().unwrap_or(0) as usize,
            witness["shard"][1].as_u64().unwrap_or(1) as usize,
        );
        let tier = if witness["tier"].as_str() == Some("thorough") { Tier::Thorough } else { Tier::Quick };
        let r = self.worker(tier, shard, Instant::now() + Duration::from_secs(3600));
        // A witness from the serde build is reproduced by the serde part of the same shard (and only by it).
        let serde = witness["serde_path"].as_bool() == Some(true);
        r.violations.into_iter().filter(|v| (v.witness["serde_path"].as_bool() == Some(true)) == serde).collect()
    }

    fn rule(&self) -> String {
        "Input enumeration on the real code. (1) Code::encode / decode / estimated_size directly: all values of u8, i8, u16, i16, bool; for u32..u128, i32..i128, usize, isize, f32, f64 all single-bit, all-ones-prefix, complemented-bit, MIN/MAX/+-1 and byte-pattern values; String incl. empty and multi-byte; Vec<u8> and Bytes of EVERY length 0..=20480 in three content classes (zeros, ramp, xorshift-incompressible), and Vec<u8> / Bytes / String (ascii and two-byte characters) of the lengths 2^k-1, 2^k, 2^k+1 and 3*2^(k-1)+-1 for 2^15..2^22 (32 KiB .. 4 MiB); encoding into destination slices of every length 0..=needed+1 (selected values) must fail with BufferSizeLimit below `needed` and succeed from `needed`. (2) End to end through a real HybridCache on an FsDevice (write-on-insertion, 16 KiB blocks => per-entry maximum 12288 bytes): insert, wait, evict from memory, get from disk, close, reopen, get — for Vec<u8> of every length 0..=20480 that is even or within 2 bytes of a page boundary of the serialized entry (quick) / every length (thorough), under none / zstd / lz4, plus samples of u64, i32, u8, bool, f64, String, Bytes; the independent reader D checks the recorded key/value lengths and checksum against the bytes on the device, that the device bytes decode to the original, and that an entry exceeding the per-entry limit is absent as a whole. distinct = distinct (length chunk, compression).".into()
    }

    fn assumptions(&self) -> Vec<String> {
        vec![
            "the serde/bincode path is exercised by a second build of the same checks (cargo feature `serde_path` -> foyer/serde), run as a sub-process of every shard; its counters are prefixed `serde_`".into(),
            "values outside the enumerated patterns for the wide numeric types".into(),
        ]
    }

    fn bounds(&self, tier: Tier) -> Value {
        json!({"max_length": 20480, "compressions": ["none", "zstd", "lz4"], "e2e_length_stride": if tier == Tier::Quick { 2 } else { 1 }})
    }

    fn vacuity(&self, _tier: Tier, r: &ShardResult) -> Vec<String> {
        let mut v = vec![];
        if r.get("code_values") == 0 || r.get("e2e_hits") == 0 {
            v.push("nothing was round-tripped".into());
        }
        if r.get("e2e_misses") == 0 {
            v.push("no oversize entry was ever rejected".into());
        }
        if r.get("entries_on_disk_zstd") == 0 || r.get("entries_on_disk_lz4") == 0 || r.get("entries_on_disk_none") == 0 {
            v.push("some compression mode never produced an entry on the device".into());
        }
        if r.get("small_buffer_cases") == 0 {
            v.push("no too-small buffer was tried".into());
        }
        if !cfg!(feature = "serde_path") && std::env::var_os("VERIF_C08_NO_SERDE").is_none() {
            if r.get("serde_code_values") == 0 || r.get("serde_e2e_hits") == 0 || r.get("serde_blanket_only_values") == 0 {
                v.push("the serde (bincode) build round-tripped nothing".into());
            }
        }
        v
    }

    fn wall_cap(&self, tier: Tier) -> Duration {
        match tier {
            Tier::Quick => Duration::from_secs(150),
            Tier::Thorough => Duration::from_secs(900),
        }
    }
}

#[allow(dead_code)]
fn _unused(_: Arc<()>) {}
