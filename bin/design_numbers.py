#!/usr/bin/env python3
"""Rewrite the last column ("quick run") of DESIGN.md §4's per-property table from the evidence files."""
import json, re
p = '/verif/DESIGN.md'
s = open(p).read()
out = []
for line in s.split('\n'):
    m = re.match(r'^\| (C\d\d) \| ', line)
    if m and line.rstrip().endswith('|') and line.count('|') >= 6:
        pid = m.group(1)
        try:
            ev = json.load(open(f'/verif/evidence/{pid}.json'))
        except Exception:
            out.append(line); continue
        if ev.get('tier') != 'quick':
            out.append(line); continue
        cov = ev['coverage']
        n = cov.get('evaluations', 0)
        human = f"{n/1e6:.1f} M" if n >= 1e6 else (f"{n/1e3:.0f} k" if n >= 1e4 else str(n))
        extra = ''
        c = cov.get('counters', {})
        if c.get('th_executions'):
            extra = f" ({c['th_executions']/1e3:.0f} k of them TH)"
        capped = '' if cov.get('exhaustive', True) else ' (a cap was hit: `exhaustive:false`)'
        cells = line.rstrip().rstrip('|').split(' | ')
        cells[-1] = f"{human} executions{extra}, {ev['wall_s']:.0f} s{capped} "
        line = ' | '.join(cells) + '|'
    out.append(line)
open(p, 'w').write('\n'.join(out))
print("updated")
