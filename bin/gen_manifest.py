#!/usr/bin/env python3
"""Regenerate /verif/MANIFEST.json from the table below (kept next to the checks it describes)."""
import json, os
ROOT = os.path.dirname(os.path.dirname(os.path.abspath(__file__)))
props = [json.loads(l) for l in open(os.path.join(ROOT, "properties.jsonl"))]

S = "bounded-exhaustive operation-sequence exploration + explicit-state BFS of the real in-memory cache (Engine S) against a reference model"
V = "stateless deviation-bounded exploration of the real hybrid cache under a deterministic runtime and sim IO engine (Engine V)"
CHECKS = {
 "C02": ("T", "model_checking", "preemption-bounded exhaustive exploration of thread interleavings of the real in-memory cache under a cooperative scheduler bound through a parking_lot facade (Engine T); per-key register oracle in the statement's form",
   "All pairs of single operations for two threads (incl. get_or_fetch and resize), 2-vs-1 operation programs, three-thread programs; three initial states; the same with a zero-weight contended key; final reads; LRU/S3-FIFO/FIFO (quick) or all five (thorough); shards 1 (1,2,4); every interleaving with <=2 (3) preemptions.",
   "Lock acquire/release, spawn, join and exit are the scheduling points, in the atomic_points jobs also every atomic operation on a record's reference count / flags; SC only; resize runs concurrently with the other operations (its helper threads are controlled threads through the foyer-memory verif seam), two resizes are not run against each other.", "DESIGN.md 2.5, 4 C02"),
 "C08": ("inputs", "model_checking", "exhaustive input enumeration (every value of the small types, every byte-string length 0..=20480, every destination-buffer length) on the real encode/decode and end to end through the real hybrid cache, with the independent format reader D",
   "All u8/i8/u16/i16/bool values, pattern sets for wider types, Strings, Vec<u8>/Bytes of every length 0..=20480 x 3 content classes and of the lengths around every power of two (and 3*2^k) up to 4 MiB; every too-small destination length; end-to-end insert->flush->evict->get->reopen->get for every (second) length x none/zstd/lz4.",
   "Both Code paths: the native implementations and (second build with foyer/serde) the blanket bincode implementation; wide numeric types are covered by bit patterns, not exhaustively.", "DESIGN.md 4 C08"),
 "C09": ("V+TH", "model_checking", V + "; monitors on the device-write log and on pre-images parsed by the independent reader D; plus deviation-bounded exploration of client threads against TWO runtime-worker threads (flusher, reclaimer and load tasks in parallel) on a device one entry short of a reclaim (Engine TH)",
   "Sustained workloads of ~4 device capacities on 4/6/8 blocks, flushers 1-3, reclaimers 1-2, clean threshold 1-2, reinsertion none/one key, FIFO picker alone or (64 KiB blocks, deletes emptying one non-oldest block) the default invalid-ratio + FIFO pair; Eager/LazyIo/Alternate(/ClientFirst) with all schedules within the deviation bound. Thread part: [ins; ins] against get / remove of an entry of the block about to be reclaimed, 2-3 client threads, 2 runtime workers, all schedules with <=1-2 (2-3) deviations.",
   "Workloads are a fixed family; what is exhaustive is the schedule space within the bound; reinsertion is configured modestly (the crate documents that picking too much gets it stuck).", "DESIGN.md 4 C09"),
 "C16": ("S+T+V+TH", "model_checking", "bounded-exhaustive sequence exploration with re-entrant callbacks under a lock-holding monitor (Engine S + parking_lot facade), preemption-bounded thread exploration with deadlock detection on the memory cache (Engine T) and on the hybrid cache with a runtime-worker thread (Engine TH), and deviation-bounded exploration of the hybrid cache with the same monitor in its user callbacks (Engine V)",
   "All sequences of <=3 (4) operations incl. in-flight fetches and lookup-only fetches (miss; joined by a fetching caller) x five algorithms x re-entry mode; listener, weighter, filter, key and value destructors assert that no cache lock is held and call back into the cache; C02's thread programs with deadlock detection.",
   "std::sync::RwLock in the block manager is not intercepted; the hybrid part probes value destructor, listener, weighter and admission filter (keys are u64 there).", "DESIGN.md 4 C16"),

 "C03": ("F", "fault_enumeration", "exhaustive single-page fault enumeration (zero / bit flips / page swaps / stale generations) over device images produced by real workloads, each reopened and fully read through the real code (enumerator F on Engine V images)",
   "Every page of every partition file incl. the tombstone log x the fault menu (quick: every bit of the first 64 bytes + one bit per 256 bytes; thorough: every bit of the first 160 bytes + one bit of every byte; page swaps; stale generations; pairs of page-granular faults); 2 base images (quick) / 12 (thorough: compression x tombstone log x fresh/wrapped).",
   "Single faults of the whole menu and pairs of page-granular faults (zeroed / stale pages); values carry key+version+deterministic payload so any foreign or garbage byte is visible; worker death while evaluating an image is reported as a verdict (journal).", "DESIGN.md 2.8, 4 C03"),
 "C04": ("K", "fault_enumeration", "exhaustive crash-point / in-flight-subset / page-tear enumeration over the device-write logs of explored executions, each crash image recovered by the real code (enumerator K on Engine V logs)",
   "All workloads of 4 (5) calls over insert/overwrite/remove/wait x policies x tombstone log; every write boundary x every subset of in-flight writes x page tears; crash/restart depth 2 with three second-session workloads (rewrite k1; delete k2 only; insert k2 only) and first-session acknowledgements carried over for keys the second session does not write.",
   "Page-atomic device writes; concurrent writes unordered; acknowledgement = wait() first polled after the version reached the write queue and completed before the crash.", "DESIGN.md 2.8, 4 C04"),
 "C07": ("V", "model_checking", V + " with harness-controlled batch boundaries; independent on-disk-format reader D",
   "Regime A: all sequences of <=4 (6) entries over boundary sizes x all cuts into <=4 batches x 1-2 flushers on 16 KiB blocks; regime B: entry counts around the 170-slot blob index boundary on 1 MiB blocks; image parsed after every batch, read-back before and after reopen.",
   "FIFO schedule per batch sequence (schedule variation is C01/C09's); no entry may be shed.", "DESIGN.md 4 C07"),
 "C10": ("V", "model_checking", "exhaustive enumeration of delete-count / batching / restart-kind histories on the real tombstone log (Engine V, FIFO schedule)",
   "Product of first-cycle delete counts around the 256-slot page boundaries and the log capacity x later-cycle counts x one-per-flush/all-in-one x graceful/crash restarts, up to 3 cycles, logs of 2 and 3 pages, with re-inserts.",
   "One schedule per history; delete counts within the log capacity as the property states.", "DESIGN.md 4 C10"),

 "C01": ("V+TH", "model_checking", V + "; plus preemption-bounded exploration of client calls racing on controlled OS threads against a controlled runtime-worker thread on the real hybrid cache (Engine TH); oracle: per-key version register R",
   "Every program of <=3 (4) client calls x both policies x tombstone log on/off (+ algorithms, compression, flushers in thorough) under four base schedules with all schedules within the deviation bound; versioned values make staleness observable. Thread part: pairs of calls (and 2-vs-1 call programs with memory eviction) on one key from three initial states, both policies, every interleaving with <=1 (2) preemptions at lock / runtime-step granularity, then reads from memory, from disk and after a restart.",
   "Engine V: one task poll / one IO completion is atomic; tokio and the kernel are replaced by vrt/simio; shedding limits never trigger; removes durable across restart only with the tombstone log (documented). Engine TH: one runtime worker thread; atomics and channel operations between two lock operations are not split.", "DESIGN.md 2.3, 2.9, 4 C01"),
 "C05": ("S", "model_checking", S + " (weight ledger W)",
   "All operation sequences to depth 3 (quick) / 4 (thorough) plus deduplicated BFS, capacities 0..4 x shards 1..4 x five algorithms, ledger compared after every step.",
   "Single caller thread; victims are followed not judged; resize's per-shard jobs run inline through the foyer-memory verif spawner seam (one legal schedule of helper threads that are joined before resize returns).", "DESIGN.md 2.2, 4 C05"),
 "C06": ("V", "model_checking", V + "; event-level enumeration of caller / disk / origin / cancel orderings",
   "2-3 overlapping callers (11 orders of get / get_or_fetch), held origins resolving ok/err, one injected disk read error, fetch-task cancellation, caller drop, concurrent insert/remove; memory-only x algorithms and hybrid x policies; disk state (absent / on disk only / throttled) set up by a FIFO prologue.",
   "Deviation-bounded (2 quick / 5 thorough, complete) around ClientFirst and Eager schedules; disk-lookup throttling not injected here.", "DESIGN.md 4 C06"),
 "C11": ("V+T", "model_checking", V + "; orderings of fetch start / insert / origin resolution; plus preemption-bounded thread interleavings of get_or_fetch vs insert on the memory cache (Engine T)",
   "Held fetches (1-2 callers + lookup-only waiter), one or two explicit inserts (ordinary, disk-only / storage-writer, in-memory-only), later lookups; memory-only x five algorithms and hybrid x policies; deviation bound 2 (quick) / 4 (thorough); thread part: get_or_fetch vs insert(s)/remove on one key, five algorithms, also with an admission filter that rejects the fetched value (phantom record), <=2 (3) preemptions at lock granularity.",
   "Hybrid cache: the premise 'while waiting on its origin' is evaluated at task-poll granularity; thread granularity is explored on the memory cache only.", "DESIGN.md 4 C11"),
 "C12": ("V", "model_checking", V + "; write-policy table P evaluated on the IO log decoded by the independent format reader D",
   "All histories of <=3 (4) calls over insert(Default/InMem/OnDisk)/get/get_or_fetch/fill/close x policies x flush_on_close x admission.",
   "No block is near reclaim (entries loaded from disk are never 'old'); wall-clock throttling is not driven.", "DESIGN.md 4 C12"),
 "C13": ("S+T", "model_checking", S + " (leave/offer conservation L); differential runs for caches without a listener; thread programs of Engine T with exactly-one-leave accounting",
   "All sequences to depth 3 (4) + deduplicated BFS with a recording listener and Pipe; the same sequences on a cache with a Pipe but no listener, compared offer by offer; five algorithms x shards 1..4; C02's thread programs.",
   "Listener notifications of disk-only entries are unconstrained; fetches are not part of the no-listener differential.", "DESIGN.md 4 C13"),
 "C14": ("S", "model_checking", S + " (five reference eviction algorithms A)",
   "Single shard, all sequences to depth 3 (4) + BFS on the reference algorithm's complete state, several configurations per algorithm, capacities 2..6, plus states reached through a resize; victim sequences compared eviction by eviction.",
   "Reference w-TinyLFU shares the datasketches sketch; S3-FIFO ghost duplicates and SIEVE hand reset follow the implementation (undocumented).", "DESIGN.md 4 C14"),
 "C15": ("V+TH", "model_checking", V + "; close + reopen + read-back; plus preemption-bounded exploration of close() on one client thread against inserts / lookups / a second close() on other threads (Engine TH)",
   "All histories of <=3 (4) calls ending in close / close;close / close;insert / drop-without-close, reopen, read all; policies x flush_on_close; plus histories after two refused (oversize) entries on an engine whose submit-queue budget is two such entries.",
   "Resident sets far below the flush buffer; no disk-capacity eviction.", "DESIGN.md 4 C15"),
 "C17": ("V+S+TH", "model_checking", V + ", Engine S, and client threads racing on the hybrid cache (Engine TH), all with a colliding user hasher; oracle R / ledger",
   "Keys 1,2 share a 64-bit hash (key 3 shares only shards): all histories of <=3 (4) calls, both policies, with restarts.",
   "Hybrid part: Engine V; memory-only part: the Engine S driver under the same colliding hasher (both run by the one check).", "DESIGN.md 4 C17"),
 "C18": ("S+T", "model_checking", S + " (handle ledger) plus Engine T for the pin/unpin/evict races",
   "All sequences to depth 3 (4) + BFS over insert/get/touch/clone/drop/replace/remove/clear/resize; handles re-read after every step; refs() and is_outdated() compared with the ledger; fresh insert after all handles are dropped must restore the bound.",
   "Sequential part single-threaded; thread part: 2-3 threads, <=2 (3) preemptions, lock-granular scheduling points.", "DESIGN.md 4 C18"),
}
checks = []
for pid, (engine, cat, tech, text, note, ref) in sorted(CHECKS.items()):
    checks.append({
        "property_id": pid,
        "quick_cmd": f"bin/check {pid} --tier quick",
        "thorough_cmd": f"bin/check {pid} --tier thorough",
        "evidence_file": f"/verif/evidence/{pid}.json",
        "replay_cmd_template": f"bin/check {pid} --replay {{path}}",
        "engine": engine,
        "level_claimed": {"category": cat, "text": text, "design_ref": ref},
        "level_note": note,
        "technique": tech,
    })
done = set(CHECKS)
manifest = {
    "version": 1,
    "setup_cmd": "cd /verif/harness && CARGO_NET_OFFLINE=true cargo build --release --offline && CARGO_NET_OFFLINE=true cargo build --release --offline -p checks --features serde_path --target-dir /verif/target-serde",
    "hooks": {
        "guard": "cargo feature `verif` on foyer-storage (re-exports for an external IoEngine, compression setter) and on foyer-memory (spawner seam for resize helper threads, optional callback before record atomics)",
        "enable": "the harness depends on /repo's crates by path with features [verif, test_utils] (harness/checks/Cargo.toml); foyer is bound to the explorer by [patch.crates-io] substitution of madsim-tokio (vrt) and parking_lot (plshim) in /verif/harness/Cargo.toml",
        "baseline_off_cmd": "cd /repo && (cargo nextest run --workspace --no-fail-fast --offline || cargo test --workspace --no-fail-fast --offline)",
        "source_commits": ["0216a43", "19f760c", "89314d6"],
        "add_only": True,
    },
    "engines": [
        {"name": "S", "path": "harness/checks/src/seq.rs", "serves_properties": ["C05", "C13", "C14", "C16", "C17", "C18"], "kind_free_text": "exhaustive operation sequences + explicit-state BFS on the real in-memory cache, lock-step with a reference ledger / reference algorithms"},
        {"name": "V", "path": "harness/checks/src/hyb.rs", "serves_properties": ["C01", "C06", "C07", "C09", "C10", "C11", "C12", "C15", "C16", "C17"], "kind_free_text": "deviation-bounded stateless exploration of the real hybrid cache: vrt (madsim-tokio substitute) owns task polling, simio owns device IO completion/failure, the client program owns call timing"},
        {"name": "T", "path": "harness/checks/src/props_c02.rs + harness/plshim", "serves_properties": ["C02", "C11", "C13", "C16", "C18"], "kind_free_text": "preemption-bounded exploration of OS-thread interleavings: plshim (parking_lot substitute) turns every lock operation into a scheduling point of a cooperative scheduler"},
        {"name": "TH", "path": "harness/checks/src/props_th.rs + harness/plshim + harness/vrt", "serves_properties": ["C01", "C09", "C15", "C16", "C17"], "kind_free_text": "preemption- (or, with two runtime workers, deviation-) bounded exploration of OS-thread interleavings of the real hybrid cache: 2-3 client threads and one or two runtime-worker threads (task polls, device IO completions) under the cooperative scheduler; scheduling points at every foyer lock operation and runtime step"},
        {"name": "F/K", "path": "harness/checks/src/props_c03.rs, props_c04.rs", "serves_properties": ["C03", "C04"], "kind_free_text": "fault / crash enumerators over images and IO logs produced by Engine V, evaluated by real recovery"},
        {"name": "core", "path": "harness/vcore", "serves_properties": sorted(done), "kind_free_text": "iterative deviation bounding, replay files, evidence, known findings, process sharding"},
    ],
    "checks": checks,
    "not_applicable": [
        {"property_id": p["id"], "reason": "check not built yet in this round (work in progress; the design claims it, see DESIGN.md section 4)"}
        for p in props if p["id"] not in done
    ],
    "notes": "All checks rebuild the harness against /repo's working tree through cargo path dependencies (bin/check). Exit 2 = machinery failure, never a verdict.",
}
json.dump(manifest, open(os.path.join(ROOT, "MANIFEST.json"), "w"), indent=1)
print("checks:", sorted(done))
